#!/usr/bin/env python3
"""Regenerates /verif/MANIFEST.json from harness/registry.json and tools/manifest_text.json."""
import json, os
V = '/verif'
reg = json.load(open(f'{V}/harness/registry.json'))
txt = json.load(open(f'{V}/tools/manifest_text.json'))
props = [json.loads(l) for l in open(f'{V}/properties.jsonl')]
checks, na = [], []
for p in props:
    pid = p['id']
    t = txt.get(pid, {})
    if pid in reg and reg[pid].get('harnesses') and not t.get('not_applicable'):
        hs = reg[pid]['harnesses']
        checks.append({
            "property_id": pid,
            "quick_cmd": f"./check {pid} quick",
            "thorough_cmd": f"./check {pid} thorough",
            "evidence_file": f"/verif/evidence/{pid}.json",
            "replay_cmd_template": "./check replay {path}",
            "engine": "gosym",
            "level_claimed": {
                "category": "model_checking",
                "text": t.get('text', ''),
                "design_ref": t.get('design_ref', 'DESIGN.md §5 ' + pid),
            },
            "level_note": t.get('note', ''),
            "technique": t.get('technique', 'bounded symbolic execution of the real go/ssa code (gosym) with SMT verdicts (z3 5.1.0 / cvc5 / z3 4.8.12) per path; harnesses ' + ', '.join(h['id'] for h in hs)),
        })
    else:
        na.append({"property_id": pid, "reason": t.get('na_reason', 'no solver-based check has been built for this property yet')})
m = {
    "version": 1,
    "setup_cmd": "cd /verif/gosym && GOFLAGS=-mod=mod GOPROXY=off GOSUMDB=off GOTOOLCHAIN=local GOCACHE=/verif/.cache/go-build go build -o /verif/bin/gosym ./cmd/gosym && /verif/bin/gosym selfcheck",
    "hooks": {
        "guard": "verif",
        "enable": "none needed: harnesses and the sym/stub packages are injected with go/packages overlays (symbolic run) and go test -overlay (native replay); the build tag 'verif' is reserved and currently guards no file in /repo",
        "baseline_off_cmd": "cd /repo && go test -mod=mod -json -vet=off -count=1 -timeout 25m ./...",
        "source_commits": [],
        "add_only": True,
    },
    "engines": [{
        "name": "gosym",
        "path": "/verif/gosym",
        "serves_properties": [c['property_id'] for c in checks],
        "kind_free_text": "mixed concrete/symbolic interpreter for go/ssa (rebuilt from /repo's working tree on every run) with path forking by decision-prefix replay, SMT-LIB2 back end (z3 5.1.0 incremental; cvc5 and z3 4.8.12 as portfolio), deterministic goroutine scheduler with preemption bounding, native replay of every counterexample via go test -overlay",
    }],
    "checks": checks,
    "not_applicable": na,
    "notes": "All checks exit 0 = held within stated bounds, 1 = VIOLATION with replay file, 2 = inconclusive (solver unknown, unwinding/path budget, unsupported instruction, stale harness, counterexample that does not reproduce natively). See DESIGN.md.",
}
json.dump(m, open(f'{V}/MANIFEST.json', 'w'), indent=1)
print(len(checks), 'checks;', len(na), 'not applicable')
