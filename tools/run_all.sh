#!/bin/sh
# runs every quick check and prints exit code + wall time
cd /verif
for p in C01 C02 C03 C04 C05 C06 C07 C08 C09 C10 C11 C12 C13 C14 C15 C16 C17 C18 C19 C20; do
  s=$(date +%s)
  timeout 1500 ./check $p ${1:-quick} > /tmp/check_$p.log 2>&1
  e=$?
  echo "$p exit=$e $(( $(date +%s) - s ))s $(grep -c '^KNOWN-FINDING' /tmp/check_$p.log) known $(grep -c '^INCONCLUSIVE' /tmp/check_$p.log) inconclusive"
done
