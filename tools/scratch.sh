#!/bin/sh
# Developer tool (not a MANIFEST command): prepare a scratch copy of /repo and of the
# /verif inputs under /var/tmp/verif-scratch/<name> so that a change can be tried against
# the checks without touching /repo or the committed evidence.
#   tools/scratch.sh new <name>            create/refresh the copy, print its directory
#   tools/scratch.sh check <name> <Cxx> [tier]   run one check against the copy
#   tools/scratch.sh rm <name>
set -e
B=/var/tmp/verif-scratch/$2
case "$1" in
new)
  mkdir -p "$B/repo" "$B/verif/.cache"
  rsync -a --delete /repo/ "$B/repo/"
  rsync -a --delete --exclude .cache --exclude .git --exclude evidence --exclude replays --exclude bin /verif/ "$B/verif/"
  [ -e "$B/verif/.cache/go-build" ] || ln -s /verif/.cache/go-build "$B/verif/.cache/go-build"
  echo "$B" ;;
check)
  export GOFLAGS=-mod=mod GOPROXY=off GOSUMDB=off GOTOOLCHAIN=local GOCACHE=/verif/.cache/go-build
  VERIF_REPO="$B/repo" VERIF_DIR="$B/verif" exec /verif/bin/gosym check -property "$3" -tier "${4:-quick}" ;;
rm)
  rm -rf "$B" ;;
esac
