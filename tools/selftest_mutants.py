#!/usr/bin/env python3
"""Framework self-test (not a MANIFEST command): applies small semantic mutants one at a
time (each still compiles) to a SCRATCH copy of /repo (tools/scratch.sh; /repo itself and the
committed evidence are never touched), runs the named property's quick check against the
copy and prints a detection matrix. Usage: selftest_mutants.py [id ...]"""
import subprocess, sys, time

M = [
 ("m01", "C02", "execution/scan/vector_selector.go", "t < refTime-lookbackDelta", "t <= refTime-lookbackDelta"),
 ("m02", "C07", "execution/scan/vector_selector.go", "currStep < o.numSteps && seriesTs <= o.maxt", "currStep < o.numSteps && seriesTs < o.maxt"),
 ("m03", "C03", "execution/scan/matrix_selector.go", "\t\t\tif t >= mint {", "\t\t\tif t > mint {"),
 ("m04", "C03", "execution/scan/matrix_selector.go", "if stepRange > o.step {", "if stepRange < o.step {"),
 ("m05", "C04", "execution/aggregate/scalar_table.go", "ValueFunc: func() float64 { return sum / count },", "ValueFunc: func() float64 { return sum / (count + 0*sum) },"),
 ("m06", "C04", "execution/aggregate/scalar_table.go", "\tlb.Keep(grouping...)\n\tkey, bytes := metric.HashForLabels", "\tlb.Del(grouping...)\n\tkey, bytes := metric.HashForLabels"),
 ("m07", "C05", "execution/binary/table.go", "\t\t\t\toutputVal = 0\n\t\t\t\tif keep {\n\t\t\t\t\toutputVal = 1", "\t\t\t\toutputVal = 1\n\t\t\t\tif keep {\n\t\t\t\t\toutputVal = 0"),
 ("m08", "C05", "execution/binary/scalar.go", "return [2]float64{scalar, v.Samples[i]}", "return [2]float64{v.Samples[i], scalar}"),
 ("m09", "C06", "execution/function/functions.go", "\t\t\t\tV: math.Max(min, v),", "\t\t\t\tV: math.Min(min, v),"),
 ("m10", "C06", "execution/step_invariant/step_invariant.go", "\t\tcacheResult: true,", "\t\tcacheResult: false,"),
 ("m11", "C07", "query/options.go", "/o.Step.Milliseconds() + 1", "/o.Step.Milliseconds() + 2"),
 ("m12", "C09", "logicalplan/merge_selects.go", "if len(lessSelective) < len(moreSelective) {", "if len(lessSelective) > len(moreSelective) {"),
 ("m13", "C10", "logicalplan/distribute.go", "\tparser.SUM:     {},", "\tparser.SUM:     {},\n\tparser.STDDEV:  {},"),
 ("m14", "C13", "engine/engine.go", "\t\t*errp = errors.Wrap(err, \"unexpected error\")\n\tcase error:", "\tcase error:"),
 ("m15", "C14", "execution/exchange/concurrent.go", "\t\tgo c.drainBufferOnCancel(ctx)\n", ""),
 ("m16", "C15", "execution/storage/series_selector.go", "\treturn seriesSet.Err()", "\t_ = seriesSet.Err()\n\treturn nil"),
 ("m17", "C16", "execution/execution.go", "\t\t\t\thints.Range = t.Range.Milliseconds()\n", ""),
 ("m18", "C17", "execution/function/operator.go", "lbls, _ = DropMetricName(s.Copy())", "lbls, _ = DropMetricName(s)"),
 ("m19", "C19", "engine/engine.go", "\t\tsort.Sort(resultMatrix)\n", ""),
 ("m20", "C11", "execution/exchange/coalesce.go", "\t\tc.sampleOffsets[i] = offset\n", "\t\tc.sampleOffsets[i] = 0\n"),
 ("m21", "C08", "execution/function/functions.go", "\t\"abs\":   simpleFunc(math.Abs),", "\t\"abs\":   simpleFunc(math.Abs),\n\t\"sort\":  simpleFunc(func(v float64) float64 { return v }),"),
 ("m22", "C18", "execution/exchange/coalesce.go", "\t\t\t\tout[i].SampleIDs = append(out[i].SampleIDs, in[i].SampleIDs...)", "\t\t\t\tout[i].SampleIDs = append(out[i].SampleIDs, in[i].SampleIDs[:len(in[i].SampleIDs)/2*2]...)"),
 ("m23", "C20", "execution/model/pool.go", "\tv.Samples = v.Samples[:0]\n", "\tv.Samples = v.Samples[:0]\n\t_ = v\n"),
 ("m24", "C05", "execution/binary/vector.go", "keepLabels := o.matching.Card != parser.CardOneToOne", "keepLabels := o.matching.Card == parser.CardOneToOne"),
 ("m25", "C03", "execution/function/functions.go", "extrapolatedRate(f.Points, true, false, f.StepTime, f.SelectRange, f.Offset)", "extrapolatedRate(f.Points, false, false, f.StepTime, f.SelectRange, f.Offset)"),
 ("m26", "C12", "execution/storage/pool.go", "\tkey := hashMatchers(matchers, mint, maxt, hints)\n\tif _, ok := p.selectors[key]; !ok {\n\t\tp.selectors[key] = newSeriesSelector(p.queryable, mint, maxt, step, matchers, hints)\n\t}\n\treturn p.selectors[key]", "\tkey := hashMatchers(matchers, mint, maxt, hints)\n\tif _, ok := sharedSelectors[key]; !ok {\n\t\tsharedSelectors[key] = newSeriesSelector(p.queryable, mint, maxt, step, matchers, hints)\n\t}\n\treturn sharedSelectors[key]"),
]
EXTRA = {"m26": ("execution/storage/pool.go", "var sep = []byte{'\\xff'}", "var sep = []byte{'\\xff'}\n\nvar sharedSelectors = map[uint64]*seriesSelector{}")}

def sh(c, **kw):
    return subprocess.run(c, shell=True, capture_output=True, text=True, **kw)

want = set(sys.argv[1:])
env = "GOFLAGS=-mod=mod GOPROXY=off GOSUMDB=off GOTOOLCHAIN=local"
for mid, prop, path, old, new in M:
    if want and mid not in want:
        continue
    sh("/verif/tools/scratch.sh new selftest")
    REPO = "/var/tmp/verif-scratch/selftest/repo"
    p = REPO + "/" + path
    s = open(p).read()
    if old not in s:
        print(f"{mid} {prop} SKIP (pattern not found in {path})")
        continue
    s = s.replace(old, new, 1)
    if mid in EXTRA:
        ep, eo, en = EXTRA[mid]
        assert ep == path
        s = s.replace(eo, en, 1)
    open(p, "w").write(s)
    b = sh(f"cd {REPO} && {env} go build ./... 2>&1 | head -3")
    if b.stdout.strip():
        print(f"{mid} {prop} SKIP (does not compile: {b.stdout.strip()[:120]})")
        continue
    t0 = time.time()
    r = sh(f"cd /verif && timeout 1500 tools/scratch.sh check selftest {prop} quick")
    viol = [l for l in r.stdout.split('\n') if l.startswith('VIOLATION')]
    inc = [l for l in r.stdout.split('\n') if l.startswith('INCONCLUSIVE')]
    verdict = "DETECTED" if r.returncode == 1 and viol else ("inconclusive" if r.returncode == 2 else "missed")
    print(f"{mid} {prop} {verdict} exit={r.returncode} {time.time()-t0:.0f}s {(viol or inc or [''])[0][:140]}", flush=True)
sh("/verif/tools/scratch.sh rm selftest")
