#!/bin/sh
# Shows the open known findings through the public API against promql.NewEngine (native build).
export GOFLAGS=-mod=mod GOPROXY=off GOSUMDB=off GOTOOLCHAIN=local GOCACHE=/verif/.cache/go-build
python3 - <<'PY'
import json,glob,os
ov={"Replace":{}}
for d in ['sym','stub','stubsel']:
    for f in glob.glob(f'/verif/harness/{d}/*.go'):
        ov["Replace"][f'/repo/zzverif/{d}/{os.path.basename(f)}']=f
ov["Replace"]['/repo/engine/zz_findings_confirm_test.go']='/verif/findings/confirm_test.go.txt'
os.makedirs('/verif/.cache',exist_ok=True)
json.dump(ov,open('/verif/.cache/confirm_overlay.json','w'))
PY
cd /repo && go test -vet=off -count=1 -overlay /verif/.cache/confirm_overlay.json -run TestConfirmOpenFindings ./engine/ 2>&1 -v | grep -v "^ok\|^PASS\|^=== \|^---"
