package engine

import (
	"context"
	"errors"

	"github.com/prometheus/prometheus/promql"

	"github.com/thanos-community/promql-engine/logicalplan"
	"github.com/thanos-community/promql-engine/zzverif/stub"
	"github.com/thanos-community/promql-engine/zzverif/sym"
)

var verifCancelQueries = []string{
	`foo`,
	`sum by (a) (foo)`,
	`max_over_time(foo[2m])`,
	`foo + on(a) bar`,
	`topk(1, foo)`,
	`-foo`,
	`abs(foo) > 0`,
	`sum(foo) / sum(bar)`,
	`sum(foo + scalar(bar))`,
	`sum(clamp_max(foo, scalar(bar)))`,
}

// VerifH14p: whole pipeline with the query context cancelled at the k-th storage
// callback (for every k reached): Exec returns the context's error or a complete
// result — never a successful partial one —, nothing deadlocks, and after the query is
// closed no goroutine is left behind; queriers are closed.
func VerifH14p() {
	// registry parameter H14p.from: explore only the shapes from that index on (used with
	// schedule exploration, where the full list would be too many schedules)
	from := sym.Param("H14p.from", 0)
	qi := from + sym.Choice("query", len(verifCancelQueries)-from)
	qs := verifCancelQueries[qi]
	// how the query is cancelled: 0 = the context given to Exec is cancelled; 1 = Cancel()
	// is called on the query (as from another goroutine) and the storage then blocks until
	// its context is cancelled. quick: one way per query shape, thorough: both.
	cancelBy := qi % 2
	if sym.Tier(0, 1) == 1 {
		cancelBy = sym.Choice("cancelBy", 2)
	}
	start := sym.Int64("start", 0, verifR)
	step := sym.Int64("step", 2, verifR)
	mk := func() []*stub.Series {
		return []*stub.Series{
			stub.NewSeries(stub.Labels("__name__", "foo", "a", "x", "b", "1"), []stub.Sample{{T: start, V: 1}, {T: start + 1, V: 2}}),
			stub.NewSeries(stub.Labels("__name__", "foo", "a", "y", "b", "1"), []stub.Sample{{T: start, V: 3}}),
			stub.NewSeries(stub.Labels("__name__", "bar", "a", "x"), []stub.Sample{{T: start, V: 5}}),
		}
	}
	rangeQ := sym.Choice("range", 2) == 1
	end := start
	if rangeQ {
		end = start + step
	}
	sym.SetGOMAXPROCS(2 * sym.IntRange("shards", 1, 2))
	e := verifEngine(logicalplan.DefaultOptimizers, 300000)
	var q promql.Query
	run := func(store *stub.Queryable, ctx context.Context) *promql.Result {
		var err error
		if rangeQ {
			q, err = e.NewRangeQuery(store, nil, qs, sym.TimeMs(start), sym.TimeMs(end), sym.DurMs(step))
		} else {
			q, err = e.NewInstantQuery(store, nil, qs, sym.TimeMs(start))
		}
		sym.Assert("C14/pipeline/created", err == nil)
		if err != nil {
			sym.Stop()
		}
		res := q.Exec(ctx)
		q.Close()
		return res
	}
	full := run(&stub.Queryable{Ser: mk()}, context.Background())
	sym.Assert("C14/pipeline/uncancelled-ok", full.Err == nil)

	ctx, cancel := context.WithCancel(context.Background())
	store := &stub.Queryable{Ser: mk()}
	cancelled := false
	store.OnCallback = func(site string) {
		if !cancelled && sym.Fault("cancel@"+site) {
			cancelled = true
			if cancelBy == 0 {
				cancel()
				// this storage call stays in flight while every other goroutine runs as
				// far as it can: Exec must not return before the call has returned and
				// its querier is closed (C17)
				sym.LetOthersRun()
			} else {
				q.Cancel()
				<-store.LastCtx.Done() // blocks for ever if Cancel() does not reach the storage's context
			}
		}
	}
	res := run(store, ctx)
	if res.Err != nil {
		sym.Assert("C14/pipeline/error-is-context-error", cancelled && errors.Is(res.Err, context.Canceled))
	} else {
		// a success must be the complete result
		switch fv := full.Value.(type) {
		case promql.Matrix:
			verifSameMatrix("C14/pipeline/success-is-complete", res, full, "", false)
		case promql.Vector:
			rv, ok := res.Value.(promql.Vector)
			sym.Assert("C14/pipeline/success-is-complete/vector", ok && len(rv) == len(fv))
		}
	}
	sym.Assert("C17/pipeline/queriers-closed-after-cancel", store.AllClosedOnce())
	cancel()
	sym.CheckLeaks()
	sym.Reached("C14/pipeline/end")
}
