package engine

import (
	"github.com/prometheus/prometheus/model/labels"
	"github.com/prometheus/prometheus/promql"

	"github.com/thanos-community/promql-engine/api"
	"github.com/thanos-community/promql-engine/logicalplan"
	"github.com/thanos-community/promql-engine/zzverif/stub"
	"github.com/thanos-community/promql-engine/zzverif/sym"
)

var verifDistQueries = []string{
	`count(foo)`,
	`group(foo)`,
	`foo`,
	`count by (b) (foo)`,
	`min(foo) by (b)`,
	`stddev(foo)`,
	`avg(foo)`,
	`count without (b) (foo)`,
	`quantile(0.5, foo)`,
	`group without (a, b) (foo)`,
	`min without (a) (foo)`,
	`max by (a) (foo)`,
	`sum by (b) (foo)`,
	`count(foo) + 1`,
	`sum(foo)`,
	`-max(foo)`,
	// mixtures of a pushed-down part and a part the coordinating engine evaluates itself
	// over its own storage (which holds the union), in both operand orders
	`count by (a) (foo) + on(a) group_right clamp_min(foo, 0)`,
	`clamp_min(foo, 0) + on(a) group_left count by (a) (foo)`,
	// aggregations nested in an aggregation of the same kind
	`count(count by (a) (foo))`,
	`max(max by (a) (foo))`,
	`sum(sum by (a) (foo))`,
}

// verifSameMatrix asserts that two range results are the same set of series and points.
func verifSameMatrix(site string, a, b *promql.Result, knownID string, region bool) {
	sym.Assert(site+"/errors-agree", (a.Err == nil) == (b.Err == nil))
	if a.Err != nil || b.Err != nil {
		return
	}
	ma, oka := a.Value.(promql.Matrix)
	mb, okb := b.Value.(promql.Matrix)

	sym.Assert(site+"/types", oka && okb)
	if knownID != "" {
		sym.Known(knownID, region)
	}
	sym.Assert(site+"/series-count", len(ma) == len(mb))
	for _, sa := range ma {
		found := false
		for _, sb := range mb {
			if !labels.Equal(sa.Metric, sb.Metric) {
				continue
			}
			found = true
			if knownID != "" {
				sym.Known(knownID, region)
			}
			sym.Assert(site+"/point-count", len(sa.Points) == len(sb.Points))
			if len(sa.Points) == len(sb.Points) {
				for i := range sa.Points {
					if knownID != "" {
						sym.Known(knownID, region)
					}
					sym.Assert(site+"/point", sym.And(sa.Points[i].T == sb.Points[i].T, sym.EqF(sa.Points[i].V, sb.Points[i].V)))
				}
			}
		}
		sym.Assert(site+"/series", found)
	}
}

// VerifH10p: a query through the distributed engine over disjoint partitions returns
// what one engine returns over the union (whole pipeline on both sides, symbolic data).
func VerifH10p() {
	qs := verifDistQueries[sym.Choice("query", len(verifDistQueries))]
	start := sym.Int64("start", 0, verifR)
	step := sym.Int64("step", 1, verifR)
	lookback := sym.Int64("lookback", 1, verifR)
	end := start + step
	// three foo series; each lives on one of two remote engines (or partitions may be empty)
	lbls := []labels.Labels{
		stub.Labels("__name__", "foo", "a", "x", "b", "1"),
		stub.Labels("__name__", "foo", "a", "x", "b", "2"),
		stub.Labels("__name__", "foo", "a", "y", "b", "1"),
	}
	var union []*stub.Series
	zombie := false
	parts := [][]*stub.Series{nil, nil}
	// shapes that repeat a mechanism another shape already covers are thorough-tier only
	later := map[string]bool{`sum(sum by (a) (foo))`: true, `max(max by (a) (foo))`: true, `group without (a, b) (foo)`: true,
		`count without (b) (foo)`: true, `quantile(0.5, foo)`: true, `stddev(foo)`: true, `count by (b) (foo)`: true}
	if sym.Tier(0, 1) == 0 && later[qs] {
		sym.Stop()
	}
	// quick: two series; thorough: three series for three of the shapes
	three := map[string]bool{`count(foo)`: true, `sum(foo)`: true, `count(count by (a) (foo))`: true}
	if sym.Tier(0, 1) == 0 || !three[qs] {
		lbls = lbls[:2]
	}
	for k, l := range lbls {
		n := 1
		s := stub.SymSeries("s"+stub.Itoa(k), n, verifR)
		if qs == `avg(foo)` || qs == `stddev(foo)` || (qs == `sum(foo)` && len(lbls) == 3) {
			// order-sensitive float algorithms (and a sum of three members, which the
			// distributed plan re-associates): pin the sample values (timestamps stay
			// symbolic) so that both sides are compared on exact numbers; the symbolic
			// values are compared over the reals by H10r
			s[0].V = float64(k+1) * 1.5
		}
		// D16 region for this series: selected at step 0, expired at step 1 centrally,
		// but the remote result's point at step 0 is still within lookback of step 1
		t := s[0].T
		zombie = sym.Or(zombie, sym.And(t <= start, start-t <= lookback, start+step-t > lookback, step <= lookback, !sym.IsStale(s[0].V)))
		union = append(union, stub.NewSeries(l, s))
		p := sym.Choice("partition."+stub.Itoa(k), 2)
		parts[p] = append(parts[p], stub.NewSeries(l, s))
	}
	sym.SetGOMAXPROCS(2)
	central := verifEngine(logicalplan.DefaultOptimizers, lookback)
	want := verifExecRange(central, &stub.Queryable{Ser: union}, qs, start, end, step)

	ropts := Opts{DisableFallback: true}
	ropts.LookbackDelta = sym.DurMs(lookback)
	var engines []api.RemoteEngine
	for _, p := range parts {
		engines = append(engines, NewLocalEngine(ropts, &stub.Queryable{Ser: p}))
	}
	endpoints := api.NewStaticEndpoints(engines)
	dopts := Opts{DisableFallback: true, LogicalOptimizers: []logicalplan.Optimizer{logicalplan.DistributedExecutionOptimizer{Endpoints: endpoints}}}
	dopts.LookbackDelta = sym.DurMs(lookback)
	dist := New(dopts)
	// the coordinating engine's own storage holds the union (read only by plan parts that
	// are not pushed down)
	got := verifExecRange(dist, &stub.Queryable{Ser: union}, qs, start, end, step)
	// D16: the distributed result may carry extra points (remote results are re-read
	// through a selector that applies the lookback delta a second time)
	verifSameMatrix("C10/distributed-equals-central", got, want, "KF-C10-D16", zombie)
	sym.Reached("C10/end")
}

var verifDistRealQueries = []string{`sum(foo)`, `avg(foo)`, `sum by (a) (foo)`, `stdvar(foo)`, `sum(foo) / count(foo)`}

// VerifH10r: distributed vs central for float aggregations whose member order depends on
// the partitioning, under the exact-real interpretation (equal up to rounding): three
// series assigned to two remote engines in every way.
func VerifH10r() {
	qs := verifDistRealQueries[sym.Choice("query", len(verifDistRealQueries))]
	start := sym.Int64("start", 0, verifR)
	step := sym.Int64("step", 1, verifR)
	lbls := []labels.Labels{
		stub.Labels("__name__", "foo", "a", "x", "b", "1"),
		stub.Labels("__name__", "foo", "a", "x", "b", "2"),
		stub.Labels("__name__", "foo", "a", "y", "b", "1"),
	}
	var union []*stub.Series
	parts := [][]*stub.Series{nil, nil}
	for k, l := range lbls {
		s := []stub.Sample{{T: start, V: sym.Float64("v" + stub.Itoa(k))}}
		union = append(union, stub.NewSeries(l, s))
		p := sym.Choice("partition."+stub.Itoa(k), 2)
		parts[p] = append(parts[p], stub.NewSeries(l, s))
	}
	sym.SetGOMAXPROCS(2)
	central := verifEngine(logicalplan.DefaultOptimizers, 300000)
	want := verifExecRange(central, &stub.Queryable{Ser: union}, qs, start, start+step, step)
	ropts := Opts{DisableFallback: true}
	ropts.LookbackDelta = sym.DurMs(300000)
	var engines []api.RemoteEngine
	for _, p := range parts {
		engines = append(engines, NewLocalEngine(ropts, &stub.Queryable{Ser: p}))
	}
	dopts := Opts{DisableFallback: true, LogicalOptimizers: []logicalplan.Optimizer{logicalplan.DistributedExecutionOptimizer{Endpoints: api.NewStaticEndpoints(engines)}}}
	dopts.LookbackDelta = sym.DurMs(300000)
	got := verifExecRange(New(dopts), &stub.Queryable{}, qs, start, start+step, step)
	sym.Assert("C10/real/errors-agree", (got.Err == nil) == (want.Err == nil))
	gm, _ := got.Value.(promql.Matrix)
	wm, _ := want.Value.(promql.Matrix)
	sym.Assert("C10/real/series-count", len(gm) == len(wm))
	for _, a := range gm {
		found := false
		for _, b := range wm {
			if labels.Equal(a.Metric, b.Metric) {
				found = true
				sym.Assert("C10/real/point-count", len(a.Points) == len(b.Points))
				if len(a.Points) == len(b.Points) {
					for i := range a.Points {
						sym.Assert("C10/real/point", sym.And(a.Points[i].T == b.Points[i].T, sym.EqR(a.Points[i].V, b.Points[i].V)))
					}
				}
			}
		}
		sym.Assert("C10/real/series", found)
	}
	sym.Reached("C10/real/end")
}
