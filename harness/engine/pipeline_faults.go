package engine

import (
	"errors"

	"github.com/prometheus/prometheus/promql"

	"github.com/thanos-community/promql-engine/logicalplan"
	"github.com/thanos-community/promql-engine/zzverif/stub"
	"github.com/thanos-community/promql-engine/zzverif/sym"
)

var errVerifStore = errors.New("injected storage failure")

var verifFaultQueries = []string{
	`foo`,
	`sum by (a) (foo)`,
	`rate(foo[2m])`,
	`foo + on(a) bar`,
	`sum(foo) / sum(bar)`,
	`-foo`,
}

// VerifH15p: whole pipeline over a storage that fails once — an error or a panic at any
// storage callback reached (Querier, Select, series-set iteration, sample iterator):
// the query reports an error wrapping the storage's error (never a successful result
// computed from partially read data), the process survives, every querier is closed
// exactly once.
func VerifH15p() {
	qs := verifFaultQueries[sym.Choice("query", len(verifFaultQueries))]
	start := sym.Int64("start", 0, verifR)
	// one sample per series exactly at the first step (faults, not data, are explored here)
	ser := []*stub.Series{
		stub.NewSeries(stub.Labels("__name__", "foo", "a", "x", "b", "1"), []stub.Sample{{T: start, V: sym.Float64("v0")}}),
		stub.NewSeries(stub.Labels("__name__", "foo", "a", "y", "b", "1"), []stub.Sample{{T: start, V: sym.Float64("v1")}}),
		stub.NewSeries(stub.Labels("__name__", "bar", "a", "x"), []stub.Sample{{T: start, V: sym.Float64("v2")}}),
	}
	store := &stub.Queryable{Ser: ser, FaultErr: errVerifStore}
	store.FaultMode = 1 + sym.Choice("faultKind", 4) // error, panic(error), panic(string), runtime error
	iterMode := sym.Choice("iteratorFault", 3)       // 0 none, 1 iterator error, 2 iterator panic
	iterFault := iterMode == 1
	if iterMode == 2 {
		store.FaultMode = 0
		ser[0].FailAt = 1 // panics when advancing past the only sample, i.e. during Next
		ser[0].FailErr = errVerifStore
		ser[0].Panic = true
	}
	if iterFault {
		// the sample iterator of foo{a=x} fails instead: on its first sample, or after one
		// good sample (which is then still within the lookback window of the next step)
		store.FaultMode = 0
		ser[0].FailAt = sym.Choice("iteratorFailsAt", 2)
		ser[0].FailErr = errVerifStore
	}
	if iterMode != 0 {
		ser[0].S = append(ser[0].S, stub.Sample{T: start + 1, V: sym.Float64("v0b")})
	}
	step := sym.Int64("step", 2, verifR)
	rangeQ := sym.Choice("range", 2) == 1
	sym.SetGOMAXPROCS(2 * sym.IntRange("shards", 1, 2))
	e := verifEngine(logicalplan.DefaultOptimizers, sym.Int64("lookback", 1, verifR))
	// D18: goroutines without any recover on the unchanged tree
	sym.KnownEvent("KF-C13-D18", "concurrencyOperator).pull")
	sym.KnownEvent("KF-C13-D18", "coalesceOperator).Next$1")
	sym.KnownEvent("KF-C13-D18", "worker.Worker).start")
	var res *promql.Result
	if rangeQ {
		res = verifExecRange(e, store, qs, start, start+step, step)
	} else {
		res = verifExecInstant(e, store, qs, start)
	}
	sym.Assert("C17/pipeline/queriers-closed-exactly-once", store.AllClosedOnce())
	iterFired := false
	for _, it := range ser[0].Iters {
		if it.Fired {
			iterFired = true
		}
	}
	if iterFault && iterFired {
		sym.Assert("C15/pipeline/iterator-error-surfaces", res.Err != nil)
	}
	if store.FaultMode == 1 && sym.Counter("faults-fired") > 0 {
		sym.Known("KF-C15-D25", true)
		sym.Assert("C15/pipeline/storage-error-surfaces", res.Err != nil)
	}
	if res.Err != nil && (store.FaultMode == 1 || iterFault) {
		sym.Assert("C15/pipeline/error-wraps-storage-error", errors.Is(res.Err, errVerifStore))
	}
	if iterMode == 2 && iterFired {
		sym.Known("KF-C13-D18a", true)
		sym.Assert("C13/pipeline/iterator-panic-becomes-error", res.Err != nil)
	}
	if store.FaultMode >= 2 && sym.Counter("faults-fired") > 0 {
		sym.Known("KF-C13-D18a", true)
		sym.Assert("C13/pipeline/panic-becomes-error", res.Err != nil)
	}
	sym.CheckLeaks()
	sym.Reached("C15/pipeline/end")
}
