package engine

import (
	"context"

	"github.com/prometheus/prometheus/model/labels"
	"github.com/prometheus/prometheus/promql/parser"

	"github.com/thanos-community/promql-engine/execution/model"
	"github.com/thanos-community/promql-engine/zzverif/stub"
	"github.com/thanos-community/promql-engine/zzverif/sym"
)

type verifPanicOp struct {
	*stub.Op
	mode     int // 0 runtime error, 1 error value, 2 string
	inSeries bool
	atNext   int
	calls    int
}

func (p *verifPanicOp) boom() {
	switch p.mode {
	case 0:
		var m map[string]int
		m["x"] = 1
	case 1:
		panic(errVerifChild)
	default:
		panic("operator panicked")
	}
}

func (p *verifPanicOp) Series(ctx context.Context) ([]labels.Labels, error) {
	if p.inSeries {
		p.boom()
	}
	return p.Op.Series(ctx)
}

func (p *verifPanicOp) Next(ctx context.Context) ([]model.StepVector, error) {
	if !p.inSeries && p.calls == p.atNext {
		p.boom()
	}
	p.calls++
	return p.Op.Next(ctx)
}

// VerifH13b: a panic raised on the Exec goroutine by the operator tree (at Series or
// at the k-th Next) is reported as the query's error: the process survives and the
// result is not a success.
func VerifH13b() {
	series := verifRootSeries[:2]
	t0 := sym.Int64("t0", -verifR, verifR)
	stream := stub.SymStreamFocus("r", 2, []int{1, 1}, t0, 1)
	op := &verifPanicOp{Op: stub.NewOp(series, stream, 2)}
	op.mode = sym.Choice("panicValue", 3)
	op.inSeries = sym.Choice("where", 2) == 0
	if !op.inSeries {
		op.atNext = sym.Choice("at", 3)
	}
	q := &compatibilityQuery{
		Query:  &Query{exec: op},
		engine: verifQuery(op.Op, nil, RangeQuery, 0).engine,
		expr:   &parser.VectorSelector{Name: "m"},
		t:      RangeQuery,
	}
	res := q.Exec(context.Background())
	if op.mode != 0 {
		sym.Known("KF-C13-D18a", true)
	}
	sym.Assert("C13/exec/panic-becomes-error", res != nil && res.Err != nil)
	sym.Reached("C13/exec/end")
}
