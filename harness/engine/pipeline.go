package engine

import (
	"context"

	"github.com/prometheus/prometheus/model/labels"
	"github.com/prometheus/prometheus/promql"
	"github.com/prometheus/prometheus/storage"

	"github.com/thanos-community/promql-engine/logicalplan"
	"github.com/thanos-community/promql-engine/zzverif/stub"
	"github.com/thanos-community/promql-engine/zzverif/sym"
)

var verifPipelineQueries = []string{
	`foo`,
	`sum(foo)`,
	`sum by (a) (foo)`,
	`max_over_time(foo[2m])`,
	`sum by (a) (rate(foo[2m]))`,
	`foo + on(a) bar`,
	`foo > 1`,
	`-foo`,
	`abs(foo)`,
	`count(foo) by (b)`,
	`foo offset 1m`,
	`sum(foo) + 1`,
}

// verifData: a small symbolic dataset: foo{a=x,b=1}, foo{a=y,b=1}, bar{a=x}
func verifData(maxSamples int) []*stub.Series {
	mk := func(name string, l labels.Labels, n int) *stub.Series {
		return stub.NewSeries(l, stub.SymSeries(name, n, verifR))
	}
	n0 := sym.IntRange("n.foo.x", 0, maxSamples)
	n1 := sym.IntRange("n.foo.y", 0, 1)
	n2 := sym.IntRange("n.bar.x", 0, 1)
	return []*stub.Series{
		mk("foox", stub.Labels("__name__", "foo", "a", "x", "b", "1"), n0),
		mk("fooy", stub.Labels("__name__", "foo", "a", "y", "b", "1"), n1),
		mk("barx", stub.Labels("__name__", "bar", "a", "x"), n2),
	}
}

// verifData1: the same three series with exactly one symbolic sample each.
func verifData1() []*stub.Series {
	return []*stub.Series{
		stub.NewSeries(stub.Labels("__name__", "foo", "a", "x", "b", "1"), stub.SymSeries("foox", 1, verifR)),
		stub.NewSeries(stub.Labels("__name__", "foo", "a", "y", "b", "1"), stub.SymSeries("fooy", 1, verifR)),
		stub.NewSeries(stub.Labels("__name__", "bar", "a", "x"), stub.SymSeries("barx", 1, verifR)),
	}
}

func verifEngine(optimizers []logicalplan.Optimizer, lookbackMs int64) *compatibilityEngine {
	o := Opts{DisableFallback: true, LogicalOptimizers: optimizers}
	o.LookbackDelta = sym.DurMs(lookbackMs)
	return New(o)
}

func verifExecRange(e *compatibilityEngine, store storage.Queryable, qs string, start, end, step int64) *promql.Result {
	q, err := e.NewRangeQuery(store, nil, qs, sym.TimeMs(start), sym.TimeMs(end), sym.DurMs(step))
	sym.Assert("pipeline/range-created", err == nil)
	if err != nil {
		sym.Stop()
	}
	res := q.Exec(context.Background())
	q.Close()
	return res
}

func verifExecInstant(e *compatibilityEngine, store storage.Queryable, qs string, ts int64) *promql.Result {
	q, err := e.NewInstantQuery(store, nil, qs, sym.TimeMs(ts))
	sym.Assert("pipeline/instant-created", err == nil)
	if err != nil {
		sym.Stop()
	}
	res := q.Exec(context.Background())
	q.Close()
	return res
}

// verifPointAt: the value of series l at time t in a range result (ok=false if none).
func verifPointsAt(m promql.Matrix, t int64) (out []promql.Sample) {
	for _, s := range m {
		for _, p := range s.Points {
			// result timestamps are on the concrete-structure grid: compare symbolically
			if sym.And(p.T == t) {
				out = append(out, promql.Sample{Metric: s.Metric, Point: p})
			}
		}
	}
	return out
}

// VerifH07p: whole pipeline (parser, planner, sharded operators, Exec): the points a
// range query returns at step i are exactly the samples of the instant query at that time.
func VerifH07p() {
	qs := verifPipelineQueries[sym.Choice("query", len(verifPipelineQueries))]
	store := &stub.Queryable{Ser: verifData(sym.Tier(2, 3))}
	start := sym.Int64("start", 0, verifR)
	step := sym.Int64("step", 1, verifR)
	K := sym.IntRange("K", 2, sym.Tier(2, 3))
	end := start + int64(K-1)*step
	lookback := sym.Int64("lookback", 1, verifR)
	sym.SetGOMAXPROCS(2 * sym.IntRange("shards", 1, 2))
	e := verifEngine(logicalplan.DefaultOptimizers, lookback)
	rr := verifExecRange(e, store, qs, start, end, step)
	sym.Assert("C07/pipeline/range-ok", rr.Err == nil)
	if rr.Err != nil {
		sym.Stop()
	}
	m, ok := rr.Value.(promql.Matrix)
	sym.Assert("C07/pipeline/matrix", ok)
	total := 0
	for i := 0; i < K; i++ {
		ts := start + int64(i)*step
		ir := verifExecInstant(e, store, qs, ts)
		sym.Assert("C07/pipeline/instant-ok", ir.Err == nil)
		if ir.Err != nil {
			sym.Stop()
		}
		var iv promql.Vector
		switch v := ir.Value.(type) {
		case promql.Vector:
			iv = v
		case promql.Scalar:
			iv = promql.Vector{promql.Sample{Point: promql.Point{T: v.T, V: v.V}}}
		}
		// the range result's points at this step: position i of each series is not fixed
		// (series may lack earlier steps), so select by timestamp
		var at []promql.Sample
		for _, s := range m {
			for _, p := range s.Points {
				if p.T == ts { // symbolic equality: forks only when ambiguous
					at = append(at, promql.Sample{Metric: s.Metric, Point: p})
				}
			}
		}
		sym.Assert("C07/pipeline/same-count@step", len(at) == len(iv))
		for _, a := range at {
			found := false
			for _, b := range iv {
				if labels.Equal(a.Metric, b.Metric) {
					found = true
					sym.Assert("C07/pipeline/same-value@step", sym.SameF(a.V, b.V))
				}
			}
			sym.Assert("C07/pipeline/same-series@step", found)
		}
		total += len(at)
	}
	n := 0
	for _, s := range m {
		n += len(s.Points)
	}
	sym.Assert("C07/pipeline/no-other-points", n == total)
	sym.Reached("C07/pipeline/end")
}
