package engine

import (
	"context"

	"github.com/prometheus/prometheus/model/labels"
	"github.com/prometheus/prometheus/promql"

	"github.com/thanos-community/promql-engine/logicalplan"
	"github.com/thanos-community/promql-engine/zzverif/stub"
	"github.com/thanos-community/promql-engine/zzverif/sym"
)

// queries over foo{a=x,b=1}, foo{a=y,b=1}, bar{a=x}; constructs with an open known
// finding (avg overflow, clamp with max<min, timestamp(), scalar() of an empty vector,
// duplicate match signatures) and order-sensitive float algorithms
// (avg, stddev: decided in exact-real mode under C04) are left out here.
var verifRefQueries = []string{
	`foo`,
	`foo offset 30s`,
	`sum(foo)`,
	`sum by (a) (foo)`,
	`sum without (a) (foo)`,
	`max by (b) (foo)`,
	`min(foo)`,
	`count(foo)`,
	`group by (a) (foo)`,
	`topk(1, foo)`,
	`bottomk by (a) (1, foo)`,
	`quantile(0.5, foo)`,
	`max_over_time(foo[2m])`,
	`count_over_time(foo[2m])`,
	`last_over_time(foo[2m])`,
	`changes(foo[2m])`,
	`rate(foo[2m])`,
	`delta(foo[2m])`,
	`irate(foo[2m])`,
	`present_over_time(foo[2m] offset 10s)`,
	`foo + on(a) bar`,
	`foo * on(a) group_left bar`,
	`foo > on(a) bar`,
	`foo > bool on(a) bar`,
	`foo == 1`,
	`foo > bool 1`,
	`1 + foo`,
	`foo / 2`,
	`-foo`,
	`abs(foo)`,
	`ceil(foo)`,
	`clamp_min(foo, 1)`,
	`clamp(foo, 0, 10)`,
	`sum(foo) + 1`,
	`sum(foo) / count(foo)`,
	`sum by (a) (rate(foo[2m]))`,
	`sum(-foo)`,
	`-sum(foo)`,
	`sum(abs(foo))`,
	`vector(1)`,
	`time()`,
	`1`,
	`pi()`,
	`1 + 2 * 3`,
	`foo @ 100`,
	`max(foo) by (a) > bool 0`,
	`count(foo{a="x"}) + count(foo{a!="x", b="1"})`,
	`sum(foo{b="1"}) - sum(foo{a=~"x|z", b="1"})`,
	`vector(time())`,
	`time() * 2 + foo`,
	`pi() * time()`,
	`sum without () (foo)`,
	`-(-foo)`,
	`max_over_time(foo{a="x"}[2m] offset 30s) - on(a) foo`,
	`count without () (foo)`,
}

// quick tier: one or two shapes per operator family (indices into verifRefQueries)
var verifRefQuick = []int{1, 3, 9, 13, 16, 25, 28, 31, 34, 35, 40, 44, 46, 48, 50, 51, 52}

func verifSameSample(site string, gl, wl labels.Labels, gt, wt int64, gv, wv float64) {
	sym.Assert(site+"/labels", labels.Equal(gl, wl))
	sym.Assert(site+"/timestamp", gt == wt)
	sym.Assert(site+"/value", sym.EqF(gv, wv))
}

// verifSameResult: type, series with label sets, timestamps and values, and errors agree.
func verifSameResult(site string, got, want *promql.Result) {
	sym.Assert(site+"/error-iff-reference-errors", (got.Err == nil) == (want.Err == nil))
	if got.Err != nil || want.Err != nil {
		return
	}
	switch w := want.Value.(type) {
	case promql.Matrix:
		g, ok := got.Value.(promql.Matrix)
		sym.Assert(site+"/type", ok)
		sym.Assert(site+"/series-count", len(g) == len(w))
		if len(g) != len(w) {
			return
		}
		for i := range w { // both sorted by label set
			sym.Assert(site+"/series-labels", labels.Equal(g[i].Metric, w[i].Metric))
			sym.Assert(site+"/point-count", len(g[i].Points) == len(w[i].Points))
			if len(g[i].Points) != len(w[i].Points) {
				continue
			}
			for j := range w[i].Points {
				verifSameSample(site+"/point", nil, nil, g[i].Points[j].T, w[i].Points[j].T, g[i].Points[j].V, w[i].Points[j].V)
			}
		}
	case promql.Vector:
		g, ok := got.Value.(promql.Vector)
		sym.Assert(site+"/type", ok)
		sym.Assert(site+"/sample-count", len(g) == len(w))
		if len(g) != len(w) {
			return
		}
		for _, ws := range w {
			found := false
			for _, gs := range g {
				if labels.Equal(gs.Metric, ws.Metric) {
					found = true
					verifSameSample(site+"/sample", nil, nil, gs.T, ws.T, gs.V, ws.V)
				}
			}
			sym.Assert(site+"/sample-labels", found)
		}
	case promql.Scalar:
		g, ok := got.Value.(promql.Scalar)
		sym.Assert(site+"/type", ok)
		verifSameSample(site+"/scalar", nil, nil, g.T, w.T, g.V, w.V)
	default:
		sym.Assert(site+"/unexpected-type", false)
	}
}

// VerifH01b: the whole engine against the REAL reference engine — promql.NewEngine of
// the pinned Prometheus, executed from its own code by the symbolic executor — on the same
// symbolic storage: value type, series and label sets, timestamps, values and errors.
func VerifH01b() {
	sym.RealReference()
	qi := sym.Choice("query", sym.Tier(len(verifRefQuick), len(verifRefQueries)))
	if sym.Tier(0, 1) == 0 {
		qi = verifRefQuick[qi]
	}
	qs := verifRefQueries[qi]
	start := sym.Int64("start", 0, verifR)
	lookback := sym.Int64("lookback", 1, verifR)
	rangeQ := sym.Choice("range", 2) == 1
	step := int64(0)
	if rangeQ {
		step = sym.Int64("step", 1, verifR)
	}
	data := verifData1()
	sym.SetGOMAXPROCS(2 * sym.IntRange("shards", 1, 2))
	e := verifEngine(logicalplan.DefaultOptimizers, lookback)
	o := promql.EngineOpts{MaxSamples: 1000000, Timeout: 3600000000000, EnableAtModifier: true, EnableNegativeOffset: true}
	o.LookbackDelta = sym.DurMs(lookback)
	ref := promql.NewEngine(o)
	var got, want *promql.Result
	if rangeQ {
		got = verifExecRange(e, &stub.Queryable{Ser: data}, qs, start, start+step, step)
		rq, err := ref.NewRangeQuery(&stub.Queryable{Ser: data}, nil, qs, sym.TimeMs(start), sym.TimeMs(start+step), sym.DurMs(step))
		sym.Assert("C01/ref/created", err == nil)
		want = rq.Exec(context.Background())
	} else {
		got = verifExecInstant(e, &stub.Queryable{Ser: data}, qs, start)
		rq, err := ref.NewInstantQuery(&stub.Queryable{Ser: data}, nil, qs, sym.TimeMs(start))
		sym.Assert("C01/ref/created", err == nil)
		want = rq.Exec(context.Background())
	}
	verifSameResult("C01/native-equals-reference:"+qs, got, want)
	sym.Reached("C01/ref/end")
}
