package engine

import (
	"context"
	"errors"

	"github.com/go-kit/log"
	"github.com/prometheus/prometheus/model/labels"
	"github.com/prometheus/prometheus/promql"
	"github.com/prometheus/prometheus/promql/parser"

	"github.com/thanos-community/promql-engine/zzverif/stub"
	"github.com/thanos-community/promql-engine/zzverif/sym"
)

const verifR = int64(1) << 41

var errVerifChild = errors.New("injected operator failure")

// series in an order that is NOT sorted by label set
var verifRootSeries = []labels.Labels{
	stub.Labels("a", "y"),
	stub.Labels("__name__", "m", "a", "x"),
	stub.Labels("a", "x"),
}

func verifQuery(op *stub.Op, expr parser.Expr, t QueryType, ts int64) *compatibilityQuery {
	return &compatibilityQuery{
		Query:  &Query{exec: op},
		engine: &compatibilityEngine{logger: log.NewNopLogger()},
		expr:   expr,
		ts:     sym.TimeMs(ts),
		t:      t,
	}
}

func verifLess(a, b labels.Labels) bool { return labels.Compare(a, b) < 0 }

// VerifH19a: Exec assembles exactly the stream it consumed into a well-formed value:
// range -> sorted matrix of the non-empty series with the (t, v) pairs of the stream;
// instant vector -> samples stamped with the evaluation time.
func VerifH19a() {
	S := sym.IntRange("S", 0, 3)
	series := verifRootSeries[:S]
	t0 := sym.Int64("t0", -verifR, verifR)
	dt := sym.Int64("dt", 1, verifR)
	rangeQ := sym.Choice("range", 2) == 1
	shape := []int{1}
	if rangeQ {
		shape = []int{2, 1}
	}
	stream := stub.SymStream("r", S, shape, t0, dt)
	op := stub.NewOp(series, stream, 2)
	var q *compatibilityQuery
	expr := &parser.VectorSelector{Name: "m"}
	if rangeQ {
		q = verifQuery(op, expr, RangeQuery, 0)
	} else {
		q = verifQuery(op, expr, InstantQuery, t0)
	}
	res := q.Exec(context.Background())
	sym.Assert("C19/exec/no-error", res.Err == nil)
	if res.Err != nil {
		sym.Stop()
	}
	// expected points per series
	want := make([][]promql.Point, S)
	for _, b := range stream {
		for _, st := range b {
			for j, id := range st.IDs {
				want[id] = append(want[id], promql.Point{T: st.T, V: st.Vs[j]})
			}
		}
	}
	nonEmpty := 0
	for k := range want {
		if len(want[k]) > 0 {
			nonEmpty++
		}
	}
	if rangeQ {
		m, ok := res.Value.(promql.Matrix)
		sym.Assert("C19/range/type", ok)
		sym.Assert("C19/range/series-count", len(m) == nonEmpty)
		for i, s := range m {
			if i > 0 {
				sym.Assert("C19/range/sorted-distinct", verifLess(m[i-1].Metric, s.Metric))
			}
			sym.Assert("C19/range/nonempty", len(s.Points) > 0)
			k := -1
			for j := range series {
				if stub.SameLabels(series[j], s.Metric) {
					k = j
				}
			}
			sym.Assert("C01/range/labels", k >= 0)
			if k < 0 {
				continue
			}
			sym.Assert("C01/range/points", len(s.Points) == len(want[k]))
			for p := range s.Points {
				if p < len(want[k]) {
					sym.Assert("C01/range/point", s.Points[p].T == want[k][p].T && sym.SameF(s.Points[p].V, want[k][p].V))
				}
				if p > 0 {
					sym.Assert("C19/range/increasing", s.Points[p-1].T < s.Points[p].T)
				}
			}
		}
	} else {
		v, ok := res.Value.(promql.Vector)
		sym.Assert("C19/instant/type", ok)
		sym.Assert("C19/instant/count", len(v) == nonEmpty)
		for _, smp := range v {
			sym.Assert("C19/instant/stamped", smp.T == t0)
			k := -1
			for j := range series {
				if stub.SameLabels(series[j], smp.Metric) {
					k = j
				}
			}
			sym.Assert("C01/instant/labels", k >= 0 && len(want[k]) == 1)
			if k >= 0 && len(want[k]) == 1 {
				sym.Assert("C01/instant/value", sym.SameF(smp.V, want[k][0].V))
			}
		}
	}
	sym.Assert("C18/exec/no-overlapping-next", !op.Overlap)
	sym.Reached("C19/exec/end")
}

// VerifH01s: scalar-typed top-level queries (literal-like stream with one label-less
// series; generator-like stream with an empty series list), instant and range.
func VerifH01s() {
	t0 := sym.Int64("t0", -verifR, verifR)
	dt := sym.Int64("dt", 1, verifR)
	rangeQ := sym.Choice("range", 2) == 1
	generator := sym.Choice("generator", 2) == 1 // Series() == [] (time(), scalar(v)); else literal
	shape := []int{1}
	if rangeQ {
		shape = []int{2, 1}
	}
	var stream [][]stub.Step
	var vals []float64
	var ts []int64
	i := 0
	for b, n := range shape {
		var batch []stub.Step
		for s := 0; s < n; s++ {
			v := sym.Float64("v" + stub.Itoa(b) + stub.Itoa(s))
			st := stub.Step{T: t0 + int64(i)*dt, Vs: []float64{v}}
			if generator {
				st.IDs = []uint64{}
			} else {
				st.IDs = []uint64{0}
			}
			vals = append(vals, v)
			ts = append(ts, st.T)
			batch = append(batch, st)
			i++
		}
		stream = append(stream, batch)
	}
	ser := []labels.Labels{}
	if !generator {
		ser = make([]labels.Labels, 1)
	}
	op := stub.NewOp(ser, stream, 2)
	expr := &parser.NumberLiteral{Val: 1}
	var q *compatibilityQuery
	if rangeQ {
		q = verifQuery(op, expr, RangeQuery, 0)
	} else {
		q = verifQuery(op, expr, InstantQuery, t0)
	}
	res := q.Exec(context.Background())
	sym.Assert("C06/scalar-query/no-error", res.Err == nil)
	if res.Err != nil {
		sym.Stop()
	}
	if rangeQ {
		m, ok := res.Value.(promql.Matrix)
		sym.Assert("C06/scalar-query/range-type", ok && len(m) == 1)
		if ok && len(m) == 1 {
			if generator {
				sym.Known("KF-C01-D13", true)
			}
			sym.Assert("C06/scalar-query/one-value-per-step", len(m[0].Points) == len(vals))
			for p := range m[0].Points {
				if p < len(vals) && len(m[0].Points) == len(vals) {
					sym.Assert("C06/scalar-query/point", m[0].Points[p].T == ts[p] && sym.SameF(m[0].Points[p].V, vals[p]))
				}
			}
		}
	} else {
		sc, ok := res.Value.(promql.Scalar)
		sym.Assert("C06/scalar-query/instant-type", ok)
		sym.Assert("C06/scalar-query/instant-value", sc.T == t0 && sym.SameF(sc.V, vals[0]))
	}
	sym.Reached("C06/scalar-query/end")
}

// VerifH15c: an error or a panic raised by the root operator at any call surfaces as
// Result.Err; the result never looks successful.
func VerifH15c() {
	series := verifRootSeries[:2]
	t0 := sym.Int64("t0", -verifR, verifR)
	stream := stub.SymStreamFocus("r", 2, []int{1, 1}, t0, 1)
	op := stub.NewOp(series, stream, 2)
	kind := sym.Choice("kind", 2) // 0: Series error, 1: Next error at batch b
	if kind == 0 {
		op.SeriesErr = errVerifChild
	} else {
		op.NextErrAt = sym.Choice("at", 3)
		op.NextErr = errVerifChild
	}
	rangeQ := sym.Choice("range", 2) == 1
	var q *compatibilityQuery
	if rangeQ {
		q = verifQuery(op, &parser.VectorSelector{Name: "m"}, RangeQuery, 0)
	} else {
		q = verifQuery(op, &parser.VectorSelector{Name: "m"}, InstantQuery, t0)
	}
	res := q.Exec(context.Background())
	expectErr := kind == 0 || op.NextErrAt <= 2
	sym.Assert("C15/exec/error-surfaces", (res.Err != nil) == expectErr)
	if res.Err != nil {
		sym.Assert("C15/exec/error-wraps", errors.Is(res.Err, errVerifChild))
		v, isVec := res.Value.(promql.Vector)
		sym.Assert("C15/exec/no-partial-value", res.Value == nil || (isVec && len(v) == 0))
	}
	sym.Reached("C15/exec/end")
}
