package engine

import (
	"github.com/thanos-community/promql-engine/logicalplan"
	"github.com/thanos-community/promql-engine/zzverif/stub"
	"github.com/thanos-community/promql-engine/zzverif/sym"
)

var verifOptQueries = []string{
	`foo{a="x"} + on(a) foo`,
	`foo - on(a, b) foo{b!=""}`,
	`sum by (a) (foo{b="1"}) / on(a) sum by (a) (foo)`,
	`abs(foo{a="x"}) * on(a) group_left foo`,
	`rate(foo{a=~"x|y"}[2m]) + on(a, b) foo`,
	`foo{a!="x"} + on(a) bar`,
	`max_over_time(foo{b=""}[2m]) - on(a) foo`,
	`foo{a="x", b="1"} / on(a) foo{a="x"}`,
	`foo{a="x"} @ 100 + on(a) foo`,
	`foo{a="x"} offset 30s + on(a) foo`,
	`foo{b="1"} @ end() - on(b) foo`,
	`max_over_time(foo{a="x"}[2m] offset 30s) - on(a) foo`,
	`count(foo{a=~"x|y", a!="x"}) + count(foo{a!="x"}) + count(foo)`,
}

// VerifH09p: whole pipeline: a query run with the default optimizers (matcher sorting,
// merged selects with an engine-side filter) or with all of them returns what it returns
// with no optimizer, over data in which labels may be absent.
func VerifH09p() {
	qs := verifOptQueries[sym.Choice("query", len(verifOptQueries))]
	start := sym.Int64("start", 0, verifR)
	step := sym.Int64("step", 1, verifR)
	lookback := sym.Int64("lookback", 1, verifR)
	mk := func(name string, kv ...string) *stub.Series {
		l := stub.Labels(append([]string{"__name__", name}, kv...)...)
		return stub.NewSeries(l, []stub.Sample{{T: start, V: sym.Float64("v." + name + stub.Itoa(len(kv)) + kv[len(kv)-1])}})
	}
	data := []*stub.Series{
		mk("foo", "a", "x", "b", "1"),
		mk("foo", "a", "y", "b", "2"),
		mk("foo", "a", "x"), // label b absent
		mk("foo", "b", "1"), // label a absent
		mk("bar", "a", "x"),
	}
	sym.SetGOMAXPROCS(4)
	base := verifExecRange(verifEngine(logicalplan.NoOptimizers, lookback), &stub.Queryable{Ser: data}, qs, start, start+step, step)
	var opts []logicalplan.Optimizer
	all := sym.Choice("optimizers", 2) == 1
	if all {
		opts = logicalplan.AllOptimizers
	} else {
		opts = logicalplan.DefaultOptimizers
	}
	other := verifExecRange(verifEngine(opts, lookback), &stub.Queryable{Ser: data}, qs, start, start+step, step)
	if all {
		// D30: PropagateMatchers drops the metric-name matchers (one-to-one, no matching labels)
		sym.Known("KF-C09-D30", false)
	}
	verifSameMatrix("C09/pipeline/optimizers-preserve-result", other, base, "", false)
	sym.Reached("C09/pipeline/end")
}

var verifHintQueriesS = []string{
	`foo`,
	`foo offset 1m`,
	`count_over_time(foo[2m])`,
	`max_over_time(foo[1m] offset 30s)`,
	`foo @ 100`,
	`sum by (a) (foo) + on(a) foo{a="x"}`,
	`last_over_time(foo[1m]) + on(a, b) foo`,
	`foo{a="x"} - on(a) max_over_time(foo[2m])`,
	// the same selector twice with equal start but different end of the selected range
	`foo @ start() - foo`,
	`foo - foo @ start()`,
	// a merged select whose more specific selector carries an offset
	`foo{a="x"} offset 1m + on(a) foo`,
}

// VerifH16s: sufficiency of the hinted time range, with and without plan rewrites: the
// result is unchanged when the storage omits every sample outside [hints.Start, hints.End]
// of the respective select.
func VerifH16s() {
	qs := verifHintQueriesS[sym.Choice("query", len(verifHintQueriesS))]
	// shapes that repeat a mechanism another shape already covers: thorough tier only
	later := map[string]bool{`last_over_time(foo[1m]) + on(a, b) foo`: true, `foo{a="x"} - on(a) max_over_time(foo[2m])`: true,
		`foo - foo @ start()`: true, `max_over_time(foo[1m] offset 30s)`: true}
	if sym.Tier(0, 1) == 0 && later[qs] {
		sym.Stop()
	}
	start := sym.Int64("start", 0, verifR)
	step := sym.Int64("step", 1, verifR)
	lookback := sym.Int64("lookback", 1, verifR)
	data := func() []*stub.Series {
		out := []*stub.Series{
			stub.NewSeries(stub.Labels("__name__", "foo", "a", "x", "b", "1"), stub.SymSeries("s0", 2, verifR)),
		}
		if sym.Param("H16s.series", 1) > 1 {
			out = append(out, stub.NewSeries(stub.Labels("__name__", "foo", "a", "y", "b", "1"), stub.SymSeries("s1", 1, verifR)))
		}
		return out
	}
	d := data()
	sym.SetGOMAXPROCS(2)
	opts := logicalplan.DefaultOptimizers
	if sym.Choice("optimizers", 2) == 1 {
		opts = logicalplan.NoOptimizers
	}
	full := verifExecRange(verifEngine(opts, lookback), &stub.Queryable{Ser: d}, qs, start, start+step, step)
	trimmed := verifExecRange(verifEngine(opts, lookback), &stub.Queryable{Ser: d, HonourHints: true}, qs, start, start+step, step)
	verifSameMatrix("C16/hinted-range-sufficient", trimmed, full, "", false)
	sym.Reached("C16/sufficiency/end")
}
