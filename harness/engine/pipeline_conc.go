package engine

import (
	"context"
	"sync"

	"github.com/prometheus/prometheus/promql"

	"github.com/thanos-community/promql-engine/logicalplan"
	"github.com/thanos-community/promql-engine/zzverif/stub"
	"github.com/thanos-community/promql-engine/zzverif/sym"
)

var verifConcQueries = []string{`foo`, `histogram_quantile(0.5, h_bucket)`, `sum by (a) (foo)`, `foo + on(a) bar`, `rate(foo[2m])`}

// VerifH12p: two queries created and executed concurrently on one engine over one
// shared storage, under every schedule with bounded preemptions: each returns what it
// returns alone, and no memory written on behalf of one query is touched by the other
// (executor isolation monitor).
func VerifH12p() {
	qa := verifConcQueries[sym.Choice("queryA", sym.Tier(2, len(verifConcQueries)))]
	qb := verifConcQueries[1+sym.Choice("queryB", sym.Tier(2, len(verifConcQueries)-1))]
	if qa == qb && qa != verifConcQueries[1] {
		sym.Stop()
	}
	start := sym.Int64("start", 0, verifR)
	step := sym.Int64("step", 1, verifR)
	data := []*stub.Series{
		stub.NewSeries(stub.Labels("__name__", "foo", "a", "x", "b", "1"), []stub.Sample{{T: start, V: sym.Float64("v0")}}),
		stub.NewSeries(stub.Labels("__name__", "bar", "a", "x"), []stub.Sample{{T: start, V: sym.Float64("v1")}}),
		stub.NewSeries(stub.Labels("__name__", "h_bucket", "job", "j1", "le", "1"), []stub.Sample{{T: start, V: 1}}),
		stub.NewSeries(stub.Labels("__name__", "h_bucket", "job", "j1", "le", "+Inf"), []stub.Sample{{T: start, V: 2}}),
		stub.NewSeries(stub.Labels("__name__", "h_bucket", "job", "j2", "le", "1"), []stub.Sample{{T: start, V: 3}}),
		stub.NewSeries(stub.Labels("__name__", "h_bucket", "job", "j2", "le", "+Inf"), []stub.Sample{{T: start, V: 4}}),
	}
	store := &stub.Queryable{Ser: data}
	sym.SetGOMAXPROCS(2)
	e := verifEngine(logicalplan.DefaultOptimizers, 300000)
	var ra, rb *promql.Result
	var wg sync.WaitGroup
	wg.Add(2)
	go func() {
		defer wg.Done()
		sym.Domain(1)
		q, err := e.NewRangeQuery(store, nil, qa, sym.TimeMs(start), sym.TimeMs(start+step), sym.DurMs(step))
		if err == nil {
			ra = q.Exec(context.Background())
			q.Close()
		}
	}()
	go func() {
		defer wg.Done()
		sym.Domain(2)
		q, err := e.NewRangeQuery(store, nil, qb, sym.TimeMs(start), sym.TimeMs(start+step), sym.DurMs(step))
		if err == nil {
			rb = q.Exec(context.Background())
			q.Close()
		}
	}()
	wg.Wait()
	// the solo runs come second, so that nothing is warmed up for the concurrent ones
	soloA := verifExecRange(e, store, qa, start, start+step, step)
	soloB := verifExecRange(e, store, qb, start, start+step, step)
	sym.Assert("C12/both-completed", ra != nil && rb != nil)
	if ra != nil && rb != nil {
		verifSameMatrix("C12/queryA-as-alone", ra, soloA, "", false)
		verifSameMatrix("C12/queryB-as-alone", rb, soloB, "", false)
	}
	sym.CheckLeaks()
	sym.Reached("C12/end")
}

// VerifH12c: Cancel() from another goroutine while Exec runs: no unsynchronised access
// to shared query state, Exec returns an error or a complete result, nothing leaks.
func VerifH12c() {
	start := sym.Int64("start", 0, verifR)
	data := []*stub.Series{
		stub.NewSeries(stub.Labels("__name__", "foo", "a", "x", "b", "1"), []stub.Sample{{T: start, V: sym.Float64("v0")}}),
	}
	store := &stub.Queryable{Ser: data}
	sym.SetGOMAXPROCS(2)
	e := verifEngine(logicalplan.DefaultOptimizers, 300000)
	q, err := e.NewInstantQuery(store, nil, `sum by (a) (foo)`, sym.TimeMs(start))
	sym.Assert("C14/cancel/created", err == nil)
	sym.KnownEvent("KF-C12-D20", "compatibilityQuery).Cancel")
	var res *promql.Result
	var wg sync.WaitGroup
	wg.Add(2)
	go func() {
		defer wg.Done()
		sym.Domain(1)
		res = q.Exec(context.Background())
	}()
	go func() {
		defer wg.Done()
		sym.Domain(2)
		q.Cancel()
	}()
	wg.Wait()
	if res != nil && res.Err == nil {
		v, ok := res.Value.(promql.Vector)
		sym.Assert("C14/cancel/success-is-complete", ok && len(v) == 1)
	}
	q.Close()
	sym.CheckLeaks()
	sym.Reached("C14/cancel/end")
}
