package engine

import (
	"context"
	"errors"
	"sort"

	"github.com/prometheus/prometheus/promql"
	"github.com/prometheus/prometheus/promql/parser"

	"github.com/thanos-community/promql-engine/execution/parse"
	"github.com/thanos-community/promql-engine/zzverif/stub"
	"github.com/thanos-community/promql-engine/zzverif/sym"
)

// functions evaluated natively at the pinned commit (each has a kernel-equivalence
// harness under C03/C06, or is histogram_quantile); every other function of the pinned
// parser must take the fallback path.
var verifNative = map[string]bool{
	"abs": true, "ceil": true, "exp": true, "floor": true, "sqrt": true, "ln": true, "log2": true, "log10": true,
	"sin": true, "cos": true, "tan": true, "asin": true, "acos": true, "atan": true, "sinh": true, "cosh": true,
	"tanh": true, "asinh": true, "acosh": true, "atanh": true, "rad": true, "deg": true, "timestamp": true, "pi": true,
	"sum_over_time": true, "max_over_time": true, "min_over_time": true, "avg_over_time": true, "stddev_over_time": true,
	"stdvar_over_time": true, "count_over_time": true, "last_over_time": true, "present_over_time": true, "time": true,
	"changes": true, "resets": true, "deriv": true, "irate": true, "idelta": true, "vector": true, "scalar": true,
	"rate": true, "delta": true, "increase": true, "clamp": true, "clamp_min": true, "clamp_max": true,
	"histogram_quantile": true,
}

func verifFuncQuery(f *parser.Function) string {
	q := f.Name + "("
	for i, t := range f.ArgTypes {
		if i > 0 {
			q += ", "
		}
		switch t {
		case parser.ValueTypeVector:
			q += "foo"
		case parser.ValueTypeMatrix:
			q += "foo[5m]"
		case parser.ValueTypeScalar:
			q += "1"
		case parser.ValueTypeString:
			q += `"x"`
		}
	}
	return q + ")"
}

type verifQ struct {
	q      string
	native bool
}

// the rest of the vocabulary: aggregations, operators and modifiers, selectors
var verifVocabulary = []verifQ{
	{"sum(foo)", true}, {"min by (a) (foo)", true}, {"max without (a) (foo)", true}, {"avg(foo)", true}, {"count(foo)", true},
	{"group(foo)", true}, {"stddev(foo)", true}, {"stdvar(foo)", true}, {"quantile(0.5, foo)", true},
	{"topk(2, foo)", true}, {"bottomk(2, foo)", true}, {`count_values("v", foo)`, false},
	{"foo + bar", true}, {"foo - on(a) bar", true}, {"foo * ignoring(a) group_left bar", true}, {"foo / 2", true},
	{"2 % foo", true}, {"foo ^ 2", true}, {"foo atan2 bar", true}, {"foo == bar", true}, {"foo != bool bar", true},
	{"foo > 1", true}, {"1 < bool 2", true}, {"foo >= bar", true}, {"foo <= bar", true},
	{"foo and bar", false}, {"foo or bar", false}, {"foo unless bar", false},
	{"-foo", true}, {"+foo", true}, {"(foo)", true}, {"foo offset 5m", true}, {"foo @ 100", true}, {"foo @ start()", true},
	{"rate(foo[5m] offset 1m)", true}, {"sum(rate(foo[1m])) by (a)", true}, {"1", true}, {"1 + 2", true},
	{"foo[5m:1m]", false}, {"max_over_time(foo[5m:1m])", false}, {"sum_over_time(rate(foo[1m])[5m:])", false},
	{`"a string"`, false}, {"foo[5m]", false}, {"sum(foo and bar)", false}, {"abs(sort(foo))", false},
	{"topk(scalar(bar), foo)", true}, {"clamp(foo, scalar(bar), 2)", true}, {"sum(foo) + on() group_left sort(bar)", false},
}

// VerifH08b: every construct of the pinned PromQL vocabulary through the real entry
// points (real parser, planner, fallback decision, query counter).
func VerifH08b() {
	var names []string
	for n := range parser.Functions {
		names = append(names, n)
	}
	sort.Strings(names)
	var qs []verifQ
	for _, n := range names {
		f := parser.Functions[n]
		qs = append(qs, verifQ{verifFuncQuery(f), verifNative[n]})
		if f.ReturnType == parser.ValueTypeVector {
			qs = append(qs, verifQ{"sum(" + verifFuncQuery(f) + ")", verifNative[n]})
		}
	}
	qs = append(qs, verifVocabulary...)
	// unsupported constructs in every syntactic position
	for _, u := range []string{`sort(foo)`, `(foo and bar)`, `count_values("v", foo)`, `holt_winters(foo[5m], 0.5, 0.5)`, `max_over_time(foo[5m:1m])`, `label_replace(foo, "a", "b", "c", "d")`} {
		for _, pos := range []string{`-%s`, `+%s`, `(%s)`, `%s + 1`, `1 + %s`, `%s + bar`, `bar * on(a) group_left() %s`, `sum by (a) (%s)`, `topk(1, %s)`, `abs(%s)`, `clamp(%s, 1, 2)`, `-sum(-%s)`, `%s > bool 1`, `quantile(0.5, %s)`, `histogram_quantile(0.9, %s)`, `scalar(%s)`, `vector(scalar(%s))`} {
			q := ""
			for i := 0; i < len(pos); i++ {
				if pos[i] == '%' && i+1 < len(pos) && pos[i+1] == 's' {
					q += u
					i++
				} else {
					q += string(pos[i])
				}
			}
			qs = append(qs, verifQ{q, false})
		}
	}
	c := qs[sym.Choice("query", len(qs))]
	disable := sym.Choice("disableFallback", 2) == 1
	rangeQ := sym.Choice("range", 2) == 1
	eo := Opts{DisableFallback: disable}
	eo.Timeout = 3600000000000 // the embedded reference engine must be able to answer (native replay)
	eo.MaxSamples = 1000000
	e := New(eo)
	store := &stub.Queryable{}
	t0 := sym.Int64("t0", 0, 1<<41)
	var q interface{}
	var err error
	if rangeQ {
		// a range window of 4 steps, or a single-point range (end == start)
		span := int64(60000) * int64(sym.Choice("rangeSpan", 2))
		q, err = e.NewRangeQuery(store, nil, c.q, sym.TimeMs(t0), sym.TimeMs(t0+span), sym.DurMs(15000))
	} else {
		q, err = e.NewInstantQuery(store, nil, c.q, sym.TimeMs(t0))
	}
	incTrue, incFalse := sym.Counter("counter:true"), sym.Counter("counter:false")
	topLevelNonRange := c.q == `"a string"` || c.q == "foo[5m]" || c.q == "foo[5m:1m]"
	if rangeQ && topLevelNonRange {
		// the reference engine rejects these for range queries as well
		sym.Assert("C08/range-type-error", err != nil)
		sym.Reached("C08/end")
		return
	}
	_, isNative := q.(*compatibilityQuery)
	sym.Assert("C08/storage-untouched-at-creation", store.Opened == 0)
	if !disable {
		sym.Assert("C08/accepted:"+c.q, err == nil && q != nil)
		sym.Assert("C08/path:"+c.q, isNative == c.native)
		if !sym.Symbolic() && !isNative && err == nil {
			// native twin of the entry-point check (replay): the embedded reference engine
			// answers a range query with a Matrix and an instant query with anything else
			if pq, ok := q.(promql.Query); ok {
				res := pq.Exec(context.Background())
				_, isMatrix := res.Value.(promql.Matrix)
				sym.Assert("C08/fallback-entry-point:"+c.q, res.Err != nil || isMatrix == rangeQ)
				pq.Close()
			}
		}
		// the counter and the embedded engine are modelled by the executor only
		if sym.Symbolic() {
			if isNative {
				sym.Assert("C08/counter:"+c.q, incFalse == 1 && incTrue == 0 && sym.Counter("fallback-queries") == 0)
			} else {
				sym.Assert("C08/counter:"+c.q, incTrue == 1 && incFalse == 0 && sym.Counter("fallback-queries") == 1)
				// answered as the reference answers it: a range query is handed to the
				// reference engine as a range query (Matrix result), an instant query as an instant query
				if rangeQ {
					sym.Assert("C08/fallback-entry-point:"+c.q, sym.Counter("fallback:NewRangeQuery") == 1 && sym.Counter("fallback:NewInstantQuery") == 0)
				} else {
					sym.Assert("C08/fallback-entry-point:"+c.q, sym.Counter("fallback:NewInstantQuery") == 1 && sym.Counter("fallback:NewRangeQuery") == 0)
				}
			}
		}
	} else {
		sym.Assert("C08/no-fallback-engine-use", !sym.Symbolic() || sym.Counter("fallback-queries") == 0)
		if c.native {
			sym.Assert("C08/nofallback/accepted:"+c.q, err == nil && isNative)
		} else {
			sym.Assert("C08/nofallback/rejected:"+c.q, err != nil && q == nil)
			if err != nil {
				sym.Assert("C08/nofallback/error-class:"+c.q, errors.Is(err, parse.ErrNotSupportedExpr) || errors.Is(err, parse.ErrNotImplemented))
			}
		}
	}
	sym.Reached("C08/end")
}
