package engine

import (
	"context"

	"github.com/prometheus/prometheus/model/labels"
	"github.com/prometheus/prometheus/promql"

	"github.com/thanos-community/promql-engine/logicalplan"
	"github.com/thanos-community/promql-engine/zzverif/stub"
	"github.com/thanos-community/promql-engine/zzverif/sym"
)

var verifHistQueries = []string{
	`histogram_quantile(0.5, {__name__=~".+_bucket"})`,
	`histogram_quantile(0.9, req_bucket)`,
	`histogram_quantile(1, req_bucket)`,
	`histogram_quantile(-0.5, req_bucket)`,
	`histogram_quantile(1.5, req_bucket)`,
	`histogram_quantile(0.5, sum by (le, pod) ({__name__=~".+_bucket"}))`,
	`histogram_quantile(scalar(other_bucket), req_bucket)`,
}

// verifNoDuplicateSeries: no label set occurs twice in a result (C19).
func verifNoDuplicateSeries(site string, r *promql.Result) {
	if r.Err != nil {
		return
	}
	switch v := r.Value.(type) {
	case promql.Matrix:
		for i := range v {
			for j := i + 1; j < len(v); j++ {
				sym.Assert(site, !labels.Equal(v[i].Metric, v[j].Metric))
			}
		}
	case promql.Vector:
		for i := range v {
			for j := i + 1; j < len(v); j++ {
				sym.Assert(site, !labels.Equal(v[i].Metric, v[j].Metric))
			}
		}
	}
}

// VerifH06h: histogram_quantile through the whole engine against the REAL reference
// engine: classic bucket series with symbolic (finite) counts, buckets of two metric names
// that share the remaining labels (merged by the reference), equal upper bounds,
// non-monotonic counts, a group with a single bucket, a series without le and one with an
// unparsable le; instant and range.
func VerifH06h() {
	sym.RealReference()
	qs := verifHistQueries[sym.Choice("query", len(verifHistQueries))]
	start := sym.Int64("start", 0, verifR)
	lookback := sym.Int64("lookback", 1, verifR)
	mk := func(name string, kv ...string) *stub.Series {
		l := stub.Labels(append([]string{"__name__", name}, kv...)...)
		id := name
		for _, s := range kv {
			id += "." + s
		}
		if qs == verifHistQueries[0] || qs == verifHistQueries[5] { // concrete counts (cost)
			return stub.NewSeries(l, []stub.Sample{{T: start, V: float64(len(id))}})
		}
		return stub.NewSeries(l, []stub.Sample{{T: start, V: sym.Finite("v." + id)}})
	}
	data := []*stub.Series{
		mk("other_bucket", "le", "2.5", "pod", "a"),
		mk("req_bucket", "le", "+Inf", "pod", "a"),
		mk("req_bucket", "le", "+Inf", "pod", "b"),
		mk("req_bucket", "le", "1", "pod", "a"),
		mk("req_bucket", "le", "2.5", "pod", "a"),
		mk("req_bucket", "le", "x", "pod", "c"),
		mk("req_bucket", "pod", "c"),
	}
	rangeQ := sym.Choice("range", 2) == 1
	step := int64(0)
	if rangeQ {
		step = sym.Int64("step", 1, verifR)
	}
	sym.SetGOMAXPROCS(2 * sym.IntRange("shards", 1, sym.Tier(1, 2)))
	e := verifEngine(logicalplan.DefaultOptimizers, lookback)
	o := promql.EngineOpts{MaxSamples: 1000000, Timeout: 3600000000000, EnableAtModifier: true, EnableNegativeOffset: true}
	o.LookbackDelta = sym.DurMs(lookback)
	ref := promql.NewEngine(o)
	var got, want *promql.Result
	if rangeQ {
		got = verifExecRange(e, &stub.Queryable{Ser: data}, qs, start, start+step, step)
		rq, err := ref.NewRangeQuery(&stub.Queryable{Ser: data}, nil, qs, sym.TimeMs(start), sym.TimeMs(start+step), sym.DurMs(step))
		sym.Assert("C06/hist/ref-created", err == nil)
		want = rq.Exec(context.Background())
	} else {
		got = verifExecInstant(e, &stub.Queryable{Ser: data}, qs, start)
		rq, err := ref.NewInstantQuery(&stub.Queryable{Ser: data}, nil, qs, sym.TimeMs(start))
		sym.Assert("C06/hist/ref-created", err == nil)
		want = rq.Exec(context.Background())
	}
	verifNoDuplicateSeries("C19/hist/no-duplicate-label-sets", got)
	if qs == verifHistQueries[0] {
		// D33: buckets of two metric names that share all other labels: the reference
		// engine fails the query ("vector cannot contain metrics with the same labelset",
		// both names have a sample at the step); the engine merges the buckets
		sym.Known("KF-C06-D33", true)
		sym.Assert("C06/hist/error-iff-reference-errors", (got.Err == nil) == (want.Err == nil))
		sym.Reached("C06/hist/end")
		return
	}
	verifSameResult("C06/hist/native-equals-reference:"+qs, got, want)
	sym.Reached("C06/hist/end")
}
