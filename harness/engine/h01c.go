package engine

import (
	"context"
	"math"

	"github.com/prometheus/prometheus/promql"

	"github.com/thanos-community/promql-engine/logicalplan"
	"github.com/thanos-community/promql-engine/zzverif/stub"
	"github.com/thanos-community/promql-engine/zzverif/sym"
)

// query sets for the time-alignment differential (values are concrete, the alignment is
// symbolic); the set is chosen by the registry parameter H01c.set so that every property
// exercises the constructs it is about over many steps:
// 0 general (C01), 1 state carried across batches (C07), 2 binary operators (C05),
// 3 functions, scalars and @-pinned parts (C06), 4 selection with offset/@ incl. the same
// selector pinned and unpinned in one query (C02), 5 range functions in composition: offsets/@ on range selectors, merged selects (C03), 6 aggregations as planned from the query text: by/without incl. empty lists, parameters (C04). foo{a="y"} ends inside the window, so
// scalar(foo{a="y"}) is absent at later steps.
var verifAlignSets = [][]string{
	{
		`foo`,
		`foo offset 45s`,
		`sum by (b) (foo)`,
		`count_over_time(foo[70s])`,
		`max_over_time(foo[1m]) - min_over_time(foo[1m])`,
		`foo + on(a) group_left bar`,
		`topk(1, foo)`,
		`time() - foo @ 200`,
		`count(foo > 3)`,
		`foo @ end()`,
		`resets(foo[3m])`,
		`last_over_time(foo[50s] @ 100)`,
		`-foo`,
		`changes(foo[100s] offset 15s)`,
		`foo @ start() - foo`,
	},
	{
		`clamp_min(foo, scalar(foo{a="y"}))`,
		`foo + scalar(foo{a="y"})`,
		`sum by (b) (foo)`,
		`topk(1, foo)`,
		`count_over_time(foo[70s])`,
		`foo + on(a) group_left bar`,
		`time() - foo @ 200`,
		`max by (a) (foo) > bool 4`,
		`foo @ start() - foo`,
	},
	{
		`foo + scalar(foo{a="y"})`,
		`scalar(foo{a="y"}) < bool foo`,
		`foo > scalar(foo{a="y"})`,
		`foo + on(a) group_left bar`,
		`foo{a="x"} / on(b) foo{a="y"}`,
		`foo > bool 3`,
		`2 - foo`,
		`foo == on(a) bar`,
		`(foo + on(a) bar) + time()`,
		`(foo{a="x"} * on(a) bar) - on(a) bar`,
	},
	{
		`clamp_min(foo, scalar(foo{a="y"}))`,
		`clamp_max(foo @ 60, time())`,
		`-(foo @ 60) + time()`,
		`abs(foo - 5)`,
		`ceil(foo / 3)`,
		`clamp_max(foo, scalar(foo{a="y"}) + 2)`,
		`pi() * time() + foo`,
		`-foo`,
		`-(-foo)`,
		`-(-(foo @ 60)) + time()`,
	},
	{
		`foo @ start() - foo`,
		`foo - foo @ end()`,
		`foo offset 45s`,
		`foo @ 200`,
		`foo{a="x"} @ 100 + on(a) foo`,
		`foo @ start() + foo offset 20s`,
		`sum(foo @ start()) + sum(foo)`,
		`foo`,
	},
	{
		`count_over_time(foo[70s])`,
		`max_over_time(foo{a="x"}[1m] offset 30s) - on(a) foo`,
		`last_over_time(foo[50s] @ 100)`,
		`resets(foo[3m])`,
		`changes(foo[100s] offset 15s)`,
		`sum_over_time(foo{a="x"}[1m] offset 45s) + on(a) group_left() foo`,
		`min_over_time(foo[45s] @ end())`,
		`present_over_time(foo[20s])`,
		`max_over_time(foo[1m]) - min_over_time(foo[1m] offset 20s)`,
	},
	{
		`sum without () (foo)`,
		`count without () (foo)`,
		`max by (b) (foo)`,
		`sum by (a, b) (foo)`,
		`topk by (b) (1, foo)`,
		`quantile(0.5, foo)`,
		`min without (a) (foo)`,
		`group by (a) (foo)`,
		`count(foo) by (b)`,
		`bottomk(1, foo)`,
		`sum(foo) by (b) / count(foo) by (b)`,
	},
}

// verifAlignData: three series scraped every 30s with a common symbolic phase d in
// [0,30s): sample i of every series sits at 30000*i+d (bar is 7s later). foo{a=x} has a gap
// (two scrapes missing), a staleness marker and a counter reset; foo{a=y} ends early; the
// values are concrete. n scrapes.
func verifAlignData(d int64, n int) []*stub.Series {
	var fx, fy, bx []stub.Sample
	for i := 0; i < n; i++ {
		t := int64(30000*i) + d
		v := float64(i) + 0.5
		switch {
		case i == 4 || i == 5: // gap
		case i == 8:
			fx = append(fx, stub.Sample{T: t, V: math.Float64frombits(0x7ff0000000000002)})
		case i >= 10:
			fx = append(fx, stub.Sample{T: t, V: float64(i-10) + 0.25}) // counter reset at i=10
		default:
			fx = append(fx, stub.Sample{T: t, V: v})
		}
		if i < n-4 {
			fy = append(fy, stub.Sample{T: t, V: 10 - v})
		}
		bx = append(bx, stub.Sample{T: t + 7000, V: 2})
	}
	return []*stub.Series{
		stub.NewSeries(stub.Labels("__name__", "foo", "a", "x", "b", "1"), fx),
		stub.NewSeries(stub.Labels("__name__", "foo", "a", "y", "b", "1"), fy),
		stub.NewSeries(stub.Labels("__name__", "bar", "a", "x"), bx),
	}
}

// VerifH01c: time-alignment differential against the REAL reference engine over MANY
// steps: the scrape phase d, the start of the window and the lookback delta are symbolic,
// the step is 20s/30s/45s and the window has 11-23 steps (crossing the internal batch of 10
// once or twice, not a multiple of it), so that every relative position of a sample to a
// step, to the lookback horizon and to a range-window edge (age = lookback-1, lookback,
// lookback+1; sample exactly on a step or on a window edge) occurs at every position of
// a batch. Values are concrete.
func VerifH01c() {
	sym.RealReference()
	set := verifAlignSets[sym.Param("H01c.set", 0)]
	nq := len(set)
	if nq > 9 {
		nq = 9
	}
	qs := set[sym.Choice("query", sym.Tier(nq, len(set)))]
	d := sym.Int64("phase", 0, 29999)
	start := sym.Int64("start", 0, 90000)
	lookback := sym.Int64("lookback", 1, 200000)
	step := []int64{20000, 45000, 30000}[sym.Choice("step", sym.Tier(1, 3))]
	steps := []int64{11, 23}[sym.Choice("steps", sym.Tier(1, 2))]
	end := start + (steps-1)*step + sym.Int64("endSlack", 0, 19999) // end need not be on the grid
	data := verifAlignData(d, 16)
	if sym.Param("H01c.reverse", 0) == 1 { // the storage returns the series in the reverse order
		data = []*stub.Series{data[2], data[1], data[0]}
	}
	sym.SetGOMAXPROCS(2 * sym.IntRange("shards", 1, sym.Tier(sym.Param("H01c.shards", 1), 2)))
	e := verifEngine(logicalplan.DefaultOptimizers, lookback)
	o := promql.EngineOpts{MaxSamples: 1000000, Timeout: 3600000000000, EnableAtModifier: true, EnableNegativeOffset: true}
	o.LookbackDelta = sym.DurMs(lookback)
	ref := promql.NewEngine(o)
	got := verifExecRange(e, &stub.Queryable{Ser: data, HonourHints: true}, qs, start, end, step)
	rq, err := ref.NewRangeQuery(&stub.Queryable{Ser: data, HonourHints: true}, nil, qs, sym.TimeMs(start), sym.TimeMs(end), sym.DurMs(step))
	sym.Assert("C01/align/ref-created", err == nil)
	want := rq.Exec(context.Background())
	verifSameResult("C01/align/native-equals-reference:"+qs, got, want)
	sym.Reached("C01/align/end")
}
