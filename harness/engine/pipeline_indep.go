package engine

import (
	"context"

	"github.com/prometheus/prometheus/promql"

	"github.com/thanos-community/promql-engine/logicalplan"
	"github.com/thanos-community/promql-engine/zzverif/stub"
	"github.com/thanos-community/promql-engine/zzverif/sym"
)

var verifIndepQueries = []string{
	`foo`,
	`sum by (a) (foo)`,
	`max(foo)`,
	`foo + on(a) bar`,
	`count(foo) by (b)`,
	`max_over_time(foo[2m])`,
	`-foo`,
	`foo > bar`,
	`foo{a="x"} * on(a) foo`,
	`foo{b="1"} - on(a) group_left foo{a="x"}`,
	`max by (b) (foo)`,
	`min without (a) (foo)`,
}

// VerifH11p: whole pipeline: the result does not depend on the number of shards
// (GOMAXPROCS), on the order in which the storage returns series, or on unrelated
// series in the storage.
func VerifH11p() {
	qs := verifIndepQueries[sym.Choice("query", len(verifIndepQueries))]
	// shapes whose mechanism another shape (or H11s) already exercises: thorough tier only
	later := map[string]bool{`foo > bar`: true, `foo{a="x"} * on(a) foo`: true, `count(foo) by (b)`: true, `-foo`: true}
	if sym.Tier(0, 1) == 0 && later[qs] {
		sym.Stop()
	}
	data := verifData1()
	start := sym.Int64("start", 0, verifR)
	step := sym.Int64("step", 1, verifR)
	lookback := sym.Int64("lookback", 1, verifR)
	end := start + step
	e := verifEngine(logicalplan.DefaultOptimizers, lookback)

	sym.SetGOMAXPROCS(2) // one shard
	base := verifExecRange(e, &stub.Queryable{Ser: data}, qs, start, end, step)

	variant := sym.Choice("variant", 3)
	var other *promql.Result
	switch variant {
	case 0: // more shards than series, and a remainder: 3 series on 2 / 4 shards
		shards := sym.IntRange("shards", 2, 4)
		if sym.Tier(0, 1) == 0 && shards == 3 {
			sym.Stop() // quick: 2 and 4 shards (3 series: one shard holds two series / one shard is empty)
		}
		sym.SetGOMAXPROCS(2 * shards)
		other = verifExecRange(e, &stub.Queryable{Ser: data}, qs, start, end, step)
	case 1: // storage returns the series in the reverse order
		rev := []*stub.Series{data[2], data[1], data[0]}
		other = verifExecRange(e, &stub.Queryable{Ser: rev}, qs, start, end, step)
	default: // an unrelated series is stored too
		extra := stub.NewSeries(stub.Labels("__name__", "unrelated", "a", "x"), []stub.Sample{{T: start, V: sym.Float64("unrelated")}})
		with := []*stub.Series{extra, data[0], data[1], data[2]}
		other = verifExecRange(e, &stub.Queryable{Ser: with}, qs, start, end, step)
	}
	verifSameMatrix("C11/pipeline/result-independent", other, base, "", false)
	sym.Reached("C11/pipeline/end")
}

// VerifH20p: no state between queries, results stay untouched: query A, the stored data
// grows, query B on the same engine equals B on a fresh engine; A's result is unchanged
// afterwards (also after closing and after buffer reuse by B).
func VerifH20p() {
	withOptsA := sym.Choice("optsA", 2) == 1
	qa, qb := verifIndepQueries[0], verifIndepQueries[0]
	if !withOptsA {
		qa = verifIndepQueries[sym.Choice("queryA", sym.Tier(2, 5))]
		qb = verifIndepQueries[sym.Choice("queryB", sym.Tier(3, 5))]
	}
	data := verifData1()
	start := sym.Int64("start", 0, verifR)
	step := sym.Int64("step", 1, verifR)
	lookback := sym.Int64("lookback", 1, verifR)
	end := start + step
	sym.SetGOMAXPROCS(4)
	e := verifEngine(logicalplan.DefaultOptimizers, lookback)
	store := &stub.Queryable{Ser: data}
	// A may carry per-query options (its own lookback delta): they must not outlive A
	var optsA *promql.QueryOpts
	if withOptsA {
		optsA = &promql.QueryOpts{LookbackDelta: sym.DurMs(sym.Int64("lookbackA", 1, verifR))}
	}
	qA, err := e.NewRangeQuery(store, optsA, qa, sym.TimeMs(start), sym.TimeMs(end), sym.DurMs(step))
	sym.Assert("C20/history/created", err == nil)
	if err != nil {
		sym.Stop()
	}
	ra := qA.Exec(context.Background())
	qA.Close()
	// snapshot of A's result
	var snap [][]promql.Point
	if m, ok := ra.Value.(promql.Matrix); ok {
		for _, s := range m {
			snap = append(snap, append([]promql.Point(nil), s.Points...))
		}
	}
	// the storage grows: a new series appears
	grown := &stub.Queryable{Ser: append(append([]*stub.Series(nil), data...),
		stub.NewSeries(stub.Labels("__name__", "foo", "a", "z", "b", "2"), []stub.Sample{{T: start, V: sym.Float64("new")}}))}
	rb := verifExecRange(e, grown, qb, start, end, step)
	fresh := verifEngine(logicalplan.DefaultOptimizers, lookback)
	rbFresh := verifExecRange(fresh, grown, qb, start, end, step)
	verifSameMatrix("C20/history/same-as-fresh-engine", rb, rbFresh, "", false)
	if m, ok := ra.Value.(promql.Matrix); ok {
		sym.Assert("C20/result-untouched/series", len(m) == len(snap))
		for i, s := range m {
			if i < len(snap) {
				sym.Assert("C20/result-untouched/points", len(s.Points) == len(snap[i]))
				for j := range s.Points {
					if j < len(snap[i]) {
						sym.Assert("C20/result-untouched/point", sym.And(s.Points[j].T == snap[i][j].T, sym.SameF(s.Points[j].V, snap[i][j].V)))
					}
				}
			}
		}
	}
	sym.Reached("C20/end")
}

var verifSharedSelectQueries = []string{
	`foo{a="x"} * on(a) foo`,
	`foo - on(a) group_left foo{a="x"}`,
	`sum by (a) (foo{a="y"}) + on(a) foo`,
}

// VerifH11s: queries whose selectors share one pooled storage select (merged selects),
// with two shards and storage callbacks as scheduling points, under every schedule with
// bounded preemptions: the result equals the single-shard result.
func VerifH11s() {
	qs := verifSharedSelectQueries[sym.Choice("query", len(verifSharedSelectQueries))]
	start := sym.Int64("start", 0, verifR)
	data := []*stub.Series{
		stub.NewSeries(stub.Labels("__name__", "foo", "a", "x", "b", "1"), []stub.Sample{{T: start, V: sym.Float64("v0")}}),
		stub.NewSeries(stub.Labels("__name__", "foo", "a", "y", "b", "1"), []stub.Sample{{T: start, V: sym.Float64("v1")}}),
		stub.NewSeries(stub.Labels("__name__", "foo", "a", "z", "b", "1"), []stub.Sample{{T: start, V: sym.Float64("v2")}}),
	}
	e := verifEngine(logicalplan.DefaultOptimizers, 300000)
	sym.SetGOMAXPROCS(2)
	base := verifExecInstant(e, &stub.Queryable{Ser: data}, qs, start)
	sym.SetGOMAXPROCS(4)
	other := verifExecInstant(e, &stub.Queryable{Ser: data}, qs, start)
	if base.Err != nil {
		sym.Observe("base.err", base.Err.Error())
	}
	if other.Err != nil {
		sym.Observe("other.err", other.Err.Error())
	}
	sym.Assert("C11/shared-select/errors-agree", (base.Err == nil) == (other.Err == nil))
	if base.Err == nil && other.Err == nil {
		bv, _ := base.Value.(promql.Vector)
		ov, _ := other.Value.(promql.Vector)
		sym.Assert("C11/shared-select/count", len(bv) == len(ov))
		for _, a := range ov {
			found := false
			for _, b := range bv {
				if stub.SameLabels(a.Metric, b.Metric) {
					found = true
					sym.Assert("C11/shared-select/value", sym.EqF(a.V, b.V))
				}
			}
			sym.Assert("C11/shared-select/series", found)
		}
	}
	sym.Reached("C11/shared-select/end")
}

// VerifH20l: a long range result (more than 121 points per series, the size Exec
// pre-allocates) stays untouched after its query is closed and later queries ran.
func VerifH20l() {
	n := 125 + sym.Choice("extraSteps", 2)*5
	var samples []stub.Sample
	var vals []float64
	for i := 0; i < n; i++ {
		v := sym.Float64("v" + stub.Itoa(i))
		vals = append(vals, v)
		samples = append(samples, stub.Sample{T: int64(i) * 1000, V: v})
	}
	data := []*stub.Series{
		stub.NewSeries(stub.Labels("__name__", "foo", "a", "x"), samples),
		stub.NewSeries(stub.Labels("__name__", "bar", "a", "x"), []stub.Sample{{T: 0, V: sym.Float64("b0")}, {T: 1000, V: sym.Float64("b1")}}),
	}
	store := &stub.Queryable{Ser: data}
	sym.SetGOMAXPROCS(2)
	e := verifEngine(logicalplan.DefaultOptimizers, 300000)
	qa, err := e.NewRangeQuery(store, nil, `foo`, sym.TimeMs(0), sym.TimeMs(int64(n-1)*1000), sym.DurMs(1000))
	sym.Assert("C20/long/created", err == nil)
	ra := qa.Exec(context.Background())
	sym.Assert("C20/long/ok", ra.Err == nil)
	m, _ := ra.Value.(promql.Matrix)
	sym.Assert("C20/long/complete", len(m) == 1 && len(m[0].Points) == n)
	qa.Close()
	rb := verifExecRange(e, store, `bar`, 0, 1000, 1000)
	sym.Assert("C20/long/second-ok", rb.Err == nil)
	rc := verifExecRange(e, store, `sum(bar)`, 0, 1000, 1000)
	sym.Assert("C20/long/third-ok", rc.Err == nil)
	if len(m) == 1 && len(m[0].Points) == n {
		for i := 0; i < n; i++ {
			sym.Assert("C20/long/result-untouched", sym.And(m[0].Points[i].T == int64(i)*1000, sym.SameF(m[0].Points[i].V, vals[i])))
		}
	}
	sym.Reached("C20/long/end")
}

var verifIndepRealQueries = []string{`sum(foo)`, `avg(foo)`, `stddev(foo)`, `sum by (b) (foo)`}

// VerifH11r: float aggregations over three members do not depend (up to rounding: exact
// reals) on shard count or on the order in which the storage returns the series.
func VerifH11r() {
	qs := verifIndepRealQueries[sym.Choice("query", len(verifIndepRealQueries))]
	start := sym.Int64("start", 0, verifR)
	data := []*stub.Series{
		stub.NewSeries(stub.Labels("__name__", "foo", "a", "x", "b", "1"), []stub.Sample{{T: start, V: sym.Float64("v0")}}),
		stub.NewSeries(stub.Labels("__name__", "foo", "a", "y", "b", "1"), []stub.Sample{{T: start, V: sym.Float64("v1")}}),
		stub.NewSeries(stub.Labels("__name__", "foo", "a", "z", "b", "1"), []stub.Sample{{T: start, V: sym.Float64("v2")}}),
	}
	e := verifEngine(logicalplan.DefaultOptimizers, 300000)
	sym.SetGOMAXPROCS(2)
	base := verifExecInstant(e, &stub.Queryable{Ser: data}, qs, start)
	var other *promql.Result
	if sym.Choice("variant", 2) == 0 {
		sym.SetGOMAXPROCS(2 * sym.IntRange("shards", 2, 3))
		other = verifExecInstant(e, &stub.Queryable{Ser: data}, qs, start)
	} else {
		order := [][]int{{2, 1, 0}, {1, 2, 0}, {0, 2, 1}}[sym.Choice("order", 3)]
		perm := []*stub.Series{data[order[0]], data[order[1]], data[order[2]]}
		other = verifExecInstant(e, &stub.Queryable{Ser: perm}, qs, start)
	}
	sym.Assert("C11/real/errors", base.Err == nil && other.Err == nil)
	bv, _ := base.Value.(promql.Vector)
	ov, _ := other.Value.(promql.Vector)
	sym.Assert("C11/real/count", len(bv) == len(ov) && len(bv) == 1)
	if len(bv) == 1 && len(ov) == 1 {
		sym.Assert("C11/real/value-up-to-rounding", sym.EqR(bv[0].V, ov[0].V))
	}
	sym.Reached("C11/real/end")
}
