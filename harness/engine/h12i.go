package engine

import (
	"github.com/prometheus/prometheus/promql"

	"github.com/thanos-community/promql-engine/logicalplan"
	"github.com/thanos-community/promql-engine/zzverif/stub"
	"github.com/thanos-community/promql-engine/zzverif/sym"
)

var verifInterleaveA = []string{
	`foo + on() group_left() vector(7)`,
	`foo * 2`,
	`clamp_min(foo, 3)`,
	`sum by (a) (foo) + 1`,
	`foo + on(a) bar`,
	`topk(1, foo)`,
	`foo @ 2 + time()`,
	`-foo`,
	`foo @ end()`,
	`sum by (a) (foo @ start())`,
}

var verifInterleaveB = []string{
	`bar * 3`,
	`bar * on() group_left() vector(5)`,
	`clamp_max(bar, 9)`,
	`sum by (a) (bar) + 2`,
	`bar - on(a) foo`,
	`bottomk(1, bar)`,
}

// VerifH12i: query B runs to completion in the MIDDLE of query A's execution, on the same
// engine and storage: A is a range query of 14 steps (two internal batches); while the
// storage is handing out sample k of A's series (for k before, inside and after the first
// batch) it runs B. Both must return what they return alone (buffer pools, caches and any
// package-level state must not connect the two).
func VerifH12i() {
	qa := verifInterleaveA[sym.Choice("queryA", len(verifInterleaveA))]
	// B: another shape, or (last choice) the same text as A; B's window always differs from A's
	qb := qa
	if bi := sym.Choice("queryB", sym.Tier(3, len(verifInterleaveB)+1)); bi < sym.Tier(2, len(verifInterleaveB)) {
		qb = verifInterleaveB[bi]
	}
	at := []int{1, 9, 11, 12}[sym.Choice("at", sym.Tier(2, 4))+sym.Tier(1, 0)]
	switch qa {
	case `foo @ 2 + time()`:
		at = 1 // the pinned selector reads only the first samples
	case `sum by (a) (foo @ start())`:
		at = 0
	}
	var fx, bx []stub.Sample
	for i := 0; i < 14; i++ {
		fx = append(fx, stub.Sample{T: int64(i) * 1000, V: sym.Finite("foo" + stub.Itoa(i))})
		bx = append(bx, stub.Sample{T: int64(i) * 1000, V: sym.Finite("bar" + stub.Itoa(i))})
	}
	mk := func(hook func(int)) []*stub.Series {
		f := stub.NewSeries(stub.Labels("__name__", "foo", "a", "x"), fx)
		f.OnLand = hook
		return []*stub.Series{f, stub.NewSeries(stub.Labels("__name__", "bar", "a", "x"), bx)}
	}
	sym.SetGOMAXPROCS(2)
	// alone, each on a fresh engine
	aloneA := verifExecRange(verifEngine(logicalplan.DefaultOptimizers, 300000), &stub.Queryable{Ser: mk(nil)}, qa, 0, 13000, 1000)
	aloneB := verifExecRange(verifEngine(logicalplan.DefaultOptimizers, 300000), &stub.Queryable{Ser: mk(nil)}, qb, 1000, 12000, 1000)
	// interleaved on one engine
	e := verifEngine(logicalplan.DefaultOptimizers, 300000)
	var rb *promql.Result
	ran := false
	var data []*stub.Series
	data = mk(func(idx int) {
		if idx >= at && !ran {
			ran = true
			rb = verifExecRange(e, &stub.Queryable{Ser: mk(nil)}, qb, 1000, 12000, 1000)
		}
	})
	ra := verifExecRange(e, &stub.Queryable{Ser: data}, qa, 0, 13000, 1000)
	sym.Assert("C12/interleaved/B-ran", ran && rb != nil)
	verifSameMatrix("C12/interleaved/A-as-alone", ra, aloneA, "", false)
	if rb != nil {
		verifSameMatrix("C12/interleaved/B-as-alone", rb, aloneB, "", false)
	}
	sym.Reached("C12/interleaved/end")
}
