package engine

import (
	"context"

	"github.com/prometheus/prometheus/promql"

	"github.com/thanos-community/promql-engine/logicalplan"
	"github.com/thanos-community/promql-engine/zzverif/stub"
	"github.com/thanos-community/promql-engine/zzverif/sym"
)

// VerifH02e: whole pipeline: the lookback delta used by a selector is the per-query one
// when given (QueryOpts.LookbackDelta > 0), else the engine's; together with offset and
// an @ pin (reference time = pin or t, minus offset).
func VerifH02e() {
	engineLB := sym.Int64("engineLookback", 1, verifR)
	queryLB := sym.Int64("queryLookback", 0, verifR) // 0 = not given
	variant := sym.Choice("modifier", 3)             // 0 plain, 1 offset 1m, 2 @ 100 (seconds)
	qs := []string{`foo`, `foo offset 1m`, `foo @ 100`}[variant]
	// merged: the same metric is selected a second time with fewer matchers, so that the
	// default optimizers turn the modified selector into a filtered view of a shared select
	merged := sym.Choice("merged", 2) == 1
	if merged {
		qs = []string{`foo{a="x"}`, `foo{a="x"} offset 1m`, `foo{a="x"} @ 100`}[variant] + ` + on(a) foo`
	}
	ts := sym.Int64("ts", 0, verifR)
	st := sym.Int64("sampleT", -verifR, verifR)
	v := sym.Float64("v")
	store := &stub.Queryable{Ser: []*stub.Series{stub.NewSeries(stub.Labels("__name__", "foo", "a", "x"), []stub.Sample{{T: st, V: v}})}}
	sym.SetGOMAXPROCS(2)
	e := verifEngine(logicalplan.DefaultOptimizers, engineLB)
	var opts *promql.QueryOpts
	if sym.Choice("withQueryOpts", 2) == 1 {
		opts = &promql.QueryOpts{LookbackDelta: sym.DurMs(queryLB)}
	} else {
		queryLB = 0
	}
	q, err := e.NewInstantQuery(store, opts, qs, sym.TimeMs(ts))
	sym.Assert("C02/lookback/created", err == nil)
	if err != nil {
		sym.Stop()
	}
	res := q.Exec(context.Background())
	q.Close()
	sym.Assert("C02/lookback/ok", res.Err == nil)
	vec, ok := res.Value.(promql.Vector)
	sym.Assert("C02/lookback/type", ok)
	ref := ts
	switch variant {
	case 1:
		ref = ts - 60000
	case 2:
		ref = 100000
	}
	lb := sym.IteI(queryLB > 0, queryLB, engineLB)
	want := sym.And(st <= ref, ref-st <= lb)
	if merged { // the unmodified right-hand selector must select the sample as well
		want = sym.And(want, st <= ts, ts-st <= lb)
	}
	sym.Known("KF-C02-D1", sym.And(queryLB > 0, queryLB != engineLB))
	sym.Assert("C02/lookback/present-iff-within-effective-lookback", sym.Iff(len(vec) == 1, want))
	if len(vec) == 1 {
		if merged {
			sym.Assert("C02/lookback/value", sym.SameF(vec[0].V, v+v) && vec[0].T == ts)
		} else {
			sym.Assert("C02/lookback/value", sym.SameF(vec[0].V, v) && vec[0].T == ts)
		}
	}
	sym.Reached("C02/lookback/end")
}
