package engine

import (
	"github.com/prometheus/prometheus/model/labels"
	"github.com/prometheus/prometheus/promql"

	"github.com/thanos-community/promql-engine/logicalplan"
	"github.com/thanos-community/promql-engine/zzverif/stub"
	"github.com/thanos-community/promql-engine/zzverif/sym"
)

var verifHistoryLater = []string{
	`abs(foo)`,
	`foo * 2`,
	`max_over_time(foo[2m])`,
	`-foo`,
	`foo > bool 1`,
	`rate(foo[2m])`,
	`sum by (Zone) (foo)`,
	`foo + on(Zone, a) group_left() bar`,
	`clamp_min(foo, 1)`,
	`histogram_quantile(0.5, foo)`,
}

// VerifH20u: a storage that hands out the very same label slices on every select, with a
// label that sorts before __name__ (upper case) and spare capacity: query `foo`, then a
// second query of another shape on the same engine, then `foo` again. The first result's
// label sets are unchanged afterwards, the third result equals the first, and the storage's
// label slices are never written (executor write barrier).
func VerifH20u() {
	later := verifHistoryLater[sym.Choice("later", len(verifHistoryLater))]
	start := sym.Int64("start", 0, verifR)
	mk := func(name, a string, v string) *stub.Series {
		l := stub.LabelsCap(2, "Zone", "eu", "__name__", name, "a", a, "le", "1")
		return stub.NewSeries(l, []stub.Sample{{T: start, V: sym.Finite(v)}})
	}
	data := []*stub.Series{mk("foo", "x", "v0"), mk("foo", "y", "v1"), mk("bar", "x", "v2")}
	store := &stub.Queryable{Ser: data}
	sym.SetGOMAXPROCS(2)
	e := verifEngine(logicalplan.DefaultOptimizers, 300000)
	r1 := verifExecInstant(e, store, `foo`, start)
	v1, ok := r1.Value.(promql.Vector)
	sym.Assert("C20/shared-labels/first", r1.Err == nil && ok && len(v1) == 2)
	var snap []labels.Labels
	for _, s := range v1 {
		snap = append(snap, s.Metric.Copy())
	}
	r2 := verifExecInstant(e, store, later, start)
	sym.Assert("C20/shared-labels/second-ok", r2.Err == nil)
	r3 := verifExecInstant(e, store, `foo`, start)
	v3, ok3 := r3.Value.(promql.Vector)
	sym.Assert("C20/shared-labels/third", r3.Err == nil && ok3 && len(v3) == len(v1))
	for i := range v1 {
		if i < len(snap) {
			sym.Assert("C20/result-untouched/labels", labels.Equal(v1[i].Metric, snap[i]))
		}
	}
	for _, s := range v3 {
		found := false
		for i := range snap {
			if labels.Equal(s.Metric, snap[i]) {
				found = true
			}
		}
		sym.Assert("C20/history/same-series-as-first", found)
	}
	for i, want := range [][]string{{"foo", "x"}, {"foo", "y"}, {"bar", "x"}} {
		sym.Assert("C17/storage-labels-untouched", labels.Equal(data[i].L, stub.Labels("Zone", "eu", "__name__", want[0], "a", want[1], "le", "1")))
	}
	sym.Reached("C20/shared-labels/end")
}
