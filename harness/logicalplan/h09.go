package logicalplan

import (
	"github.com/prometheus/prometheus/model/labels"
	"github.com/prometheus/prometheus/promql/parser"

	engstore "github.com/thanos-community/promql-engine/execution/storage"
	"github.com/thanos-community/promql-engine/zzverif/stub"
	"github.com/thanos-community/promql-engine/zzverif/sym"
)

type verifM struct {
	t    labels.MatchType
	n, v string
}

// matcher alphabet: 2 keys x types x values (incl. empty value, negative and regex)
func verifAlphabet(full bool) []verifM {
	var out []verifM
	types := []labels.MatchType{labels.MatchEqual, labels.MatchNotEqual, labels.MatchRegexp}
	vals := []string{"", "x"}
	if full {
		types = append(types, labels.MatchNotRegexp)
		vals = append(vals, "y")
	}
	for _, n := range []string{"a", "b"} {
		for _, t := range types {
			for _, v := range vals {
				out = append(out, verifM{t, n, v})
			}
		}
	}
	return out
}

var verifSmall = []verifM{
	{labels.MatchEqual, "a", "x"}, {labels.MatchNotEqual, "a", "x"}, {labels.MatchEqual, "b", ""}, {labels.MatchRegexp, "b", "x"},
}

func verifSelector(name string, ms []verifM) *parser.VectorSelector {
	vs := &parser.VectorSelector{Name: name}
	for _, m := range ms {
		vs.LabelMatchers = append(vs.LabelMatchers, labels.MustNewMatcher(m.t, m.n, m.v))
	}
	vs.LabelMatchers = append(vs.LabelMatchers, labels.MustNewMatcher(labels.MatchEqual, labels.MetricName, name))
	return vs
}

// the dataset: every label-presence combination
func verifUniverse() []labels.Labels {
	var out []labels.Labels
	for _, name := range []string{"m1", "m2"} {
		for _, a := range []string{"", "x", "y"} {
			for _, b := range []string{"", "x", "y"} {
				kv := []string{"__name__", name}
				if a != "" {
					kv = append(kv, "a", a)
				}
				if b != "" {
					kv = append(kv, "b", b)
				}
				out = append(out, stub.Labels(kv...))
			}
		}
	}
	return out
}

func verifMatchAll(ms []*labels.Matcher, l labels.Labels) bool {
	for _, m := range ms {
		if !m.Matches(l.Get(m.Name)) {
			return false
		}
	}
	return true
}

// verifSelected: does the (possibly rewritten) selector node select series l — storage
// select by the node's matchers, then the engine-side filter.
func verifSelected(node parser.Expr, l labels.Labels) bool {
	switch n := node.(type) {
	case *parser.VectorSelector:
		return verifMatchAll(n.LabelMatchers, l)
	case *FilteredSelector:
		if !verifMatchAll(n.VectorSelector.LabelMatchers, l) {
			return false
		}
		return engstore.NewFilter(n.Filters).Matches(stub.NewSeries(l, nil))
	case FilteredSelector:
		if !verifMatchAll(n.VectorSelector.LabelMatchers, l) {
			return false
		}
		return engstore.NewFilter(n.Filters).Matches(stub.NewSeries(l, nil))
	}
	sym.Assert("C09/unexpected-node", false)
	return false
}

// verifD14: the region of known finding D14 — the engine-side filter skips a matcher
// whose label is absent from the series although the matcher rejects the empty value,
// or keeps only the last of several filters on one label name.
func verifD14(node parser.Expr, l labels.Labels) bool {
	var filters []*labels.Matcher
	switch n := node.(type) {
	case *FilteredSelector:
		filters = n.Filters
	case FilteredSelector:
		filters = n.Filters
	default:
		return false
	}
	for i, f := range filters {
		if l.Get(f.Name) == "" && !f.Matches("") {
			return true
		}
		for j := range filters {
			if i != j && filters[j].Name == f.Name {
				return true
			}
		}
	}
	return false
}

// verifNoNameMatcher: the region of known finding D30 — a plain selector that lost its
// __name__ matcher.
func verifNoNameMatcher(node parser.Expr) bool {
	vs, ok := node.(*parser.VectorSelector)
	if !ok {
		return false
	}
	for _, m := range vs.LabelMatchers {
		if m.Name == labels.MetricName {
			return false
		}
	}
	return true
}

var verifOptSets = [][]Optimizer{
	{SortMatchers{}, MergeSelectsOptimizer{}},
	{SortMatchers{}, MergeSelectsOptimizer{}, PropagateMatchersOptimizer{}},
	{PropagateMatchersOptimizer{}},
	{MergeSelectsOptimizer{}},
}

// VerifH09a: for every pair of selectors from the matcher alphabet, in each syntactic
// position, the rewritten plan selects exactly the series the original selects.
func VerifH09a() {
	full := sym.Tier(0, 1) == 1
	alpha := verifAlphabet(full)
	var am, bm []verifM
	if c := sym.Choice("A.m0", len(alpha)+1); c > 0 {
		am = append(am, alpha[c-1])
	}
	bname := []string{"m1", "m2"}[sym.Choice("B.name", 2)]
	if c := sym.Choice("B.m0", len(alpha)+1); c > 0 {
		bm = append(bm, alpha[c-1])
	}
	if c := sym.Choice("B.m1", len(verifSmall)+1); c > 0 {
		bm = append(bm, verifSmall[c-1])
	}
	A := verifSelector("m1", am)
	B := verifSelector(bname, bm)
	origA := append([]*labels.Matcher(nil), A.LabelMatchers...)
	origB := append([]*labels.Matcher(nil), B.LabelMatchers...)
	shape := sym.Choice("shape", 4)
	opts := verifOptSets[sym.Choice("optimizers", len(verifOptSets))]

	var root parser.Expr
	var getA, getB func() parser.Expr
	switch shape {
	case 0: // A + B
		be := &parser.BinaryExpr{Op: parser.ADD, LHS: A, RHS: B, VectorMatching: &parser.VectorMatching{Card: parser.CardOneToOne}}
		root = be
		getA, getB = func() parser.Expr { return be.LHS }, func() parser.Expr { return be.RHS }
	case 1: // abs(A) * on(a) group_left B   (selector as a direct call argument)
		call := &parser.Call{Func: parser.Functions["abs"], Args: parser.Expressions{A}}
		be := &parser.BinaryExpr{Op: parser.MUL, LHS: call, RHS: B, VectorMatching: &parser.VectorMatching{Card: parser.CardManyToOne, On: true, MatchingLabels: []string{"a"}}}
		root = be
		getA, getB = func() parser.Expr { return call.Args[0] }, func() parser.Expr { return be.RHS }
	case 2: // sum by (a) (A) / on(a) B
		agg := &parser.AggregateExpr{Op: parser.SUM, Expr: A, Grouping: []string{"a"}}
		be := &parser.BinaryExpr{Op: parser.DIV, LHS: agg, RHS: B, VectorMatching: &parser.VectorMatching{Card: parser.CardOneToOne, On: true, MatchingLabels: []string{"a"}}}
		root = be
		getA, getB = func() parser.Expr { return agg.Expr }, func() parser.Expr { return be.RHS }
	default: // rate(A[5m]) - on(a) B   (range selector)
		ms := &parser.MatrixSelector{VectorSelector: A, Range: 300000000000}
		call := &parser.Call{Func: parser.Functions["rate"], Args: parser.Expressions{ms}}
		be := &parser.BinaryExpr{Op: parser.SUB, LHS: call, RHS: B, VectorMatching: &parser.VectorMatching{Card: parser.CardOneToOne, On: true, MatchingLabels: []string{"a"}}}
		root = be
		getA, getB = func() parser.Expr { return ms.VectorSelector }, func() parser.Expr { return be.RHS }
	}
	p := &plan{expr: root}
	out := p.Optimize(opts).Expr()
	sym.Assert("C09/root-kept", out == root)
	na, nb := getA(), getB()
	uni := verifUniverse()
	if shape == 0 {
		// one-to-one on all labels: only pairs with equal non-name labels matter
		for _, l := range uni {
			for _, r := range uni {
				if !stub.SameLabels(verifNoName(l), verifNoName(r)) {
					continue
				}
				before := verifMatchAll(origA, l) && verifMatchAll(origB, r)
				after := verifSelected(na, l) && verifSelected(nb, r)
				sym.Known("KF-C09-D14", verifD14(na, l) || verifD14(nb, r))
				sym.Known("KF-C09-D30", verifNoNameMatcher(na) || verifNoNameMatcher(nb))
				sym.Assert("C09/binary/pairs-preserved", before == after)
			}
		}
	} else {
		for _, l := range uni {
			if shape == 1 {
				_, still := na.(*parser.VectorSelector)
				sym.Known("KF-C09-D15", still && len(A.LabelMatchers) != len(origA))
			}
			sym.Known("KF-C09-D14", verifD14(na, l))
			sym.Assert("C09/selector-A-preserved", verifMatchAll(origA, l) == verifSelected(na, l))
			sym.Known("KF-C09-D14", verifD14(nb, l))
			sym.Assert("C09/selector-B-preserved", verifMatchAll(origB, l) == verifSelected(nb, l))
		}
	}
	sym.Reached("C09/end")
}

func verifNoName(l labels.Labels) labels.Labels {
	var out labels.Labels
	for _, x := range l {
		if x.Name != labels.MetricName {
			out = append(out, x)
		}
	}
	return out
}
