package unary

import (
	"context"

	"github.com/prometheus/prometheus/model/labels"

	"github.com/thanos-community/promql-engine/zzverif/stub"
	"github.com/thanos-community/promql-engine/zzverif/sym"
)

const verifR = int64(1) << 41

// VerifH06u: unary minus negates every sample, drops the metric name, and serves
// batches whether or not Series() was requested first.
func VerifH06u() {
	series := []labels.Labels{stub.Labels("__name__", "m", "a", "x"), stub.Labels("__name__", "m", "a", "y")}
	t0 := sym.Int64("t0", -verifR, verifR)
	shape := []int{2, 1}
	stream := stub.SymStreamFocus("v", 2, shape, t0, 1)
	cop := stub.NewOp(series, stream, 2)
	o, err := NewUnaryNegation(cop, 2)
	sym.Assert("C06/unary/new", err == nil)
	ctx, cancel := context.WithCancel(context.Background())
	seriesFirst := sym.Choice("seriesFirst", 2) == 1
	if seriesFirst {
		_, err := o.Series(ctx)
		sym.Assert("C06/unary/series", err == nil)
	} else {
		sym.KnownEvent("KF-C13-D17", "worker.Worker).Send")
	}
	for b := range shape {
		out, err := o.Next(ctx)
		sym.Assert("C06/unary/next", err == nil && len(out) == shape[b])
		if len(out) != shape[b] {
			sym.Stop()
		}
		for s := 0; s < shape[b]; s++ {
			in := stream[b][s]
			sv := out[s]
			sym.Assert("C18/unary/T", sv.T == in.T)
			sym.Assert("C06/unary/count", len(sv.Samples) == len(in.Vs) && len(sv.SampleIDs) == len(in.IDs))
			for j := range in.IDs {
				if j < len(sv.Samples) {
					sym.Assert("C06/unary/value", sv.SampleIDs[j] == in.IDs[j] && sym.SameF(sv.Samples[j], -in.Vs[j]))
				}
			}
		}
	}
	out, err := o.Next(ctx)
	sym.Assert("C18/unary/end", out == nil && err == nil)
	ls, err := o.Series(ctx)
	sym.Assert("C06/unary/labels", err == nil && len(ls) == 2 && stub.SameLabels(ls[0], stub.Labels("a", "x")) && stub.SameLabels(ls[1], stub.Labels("a", "y")))
	sym.Assert("C17/unary/input-labels-untouched", stub.SameLabels(series[0], stub.Labels("__name__", "m", "a", "x")))
	cancel()
	sym.CheckLeaks()
	sym.Reached("C06/unary/end")
}
