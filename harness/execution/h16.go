package execution

import (
	"context"
	"time"
	_ "unsafe"

	"github.com/prometheus/prometheus/model/labels"
	"github.com/prometheus/prometheus/promql/parser"
	"github.com/prometheus/prometheus/storage"

	"github.com/thanos-community/promql-engine/logicalplan"
	"github.com/thanos-community/promql-engine/zzverif/stub"
	"github.com/thanos-community/promql-engine/zzverif/sym"
)

//go:linkname promExtractFuncFromPath github.com/prometheus/prometheus/promql.extractFuncFromPath
func promExtractFuncFromPath(p []parser.Node) string

//go:linkname promExtractGroupsFromPath github.com/prometheus/prometheus/promql.extractGroupsFromPath
func promExtractGroupsFromPath(p []parser.Node) (bool, []string)

const verifR = int64(1) << 41

var verifHintQueries = []string{
	`foo`,
	`rate(foo[5m])`,
	`sum by (a) (foo)`,
	`sum by (a) (rate(foo[5m]))`,
	`sum without (a, b) (foo)`,
	`max_over_time(foo[1m] offset 90s)`,
	`foo offset 5m`,
	`foo offset -5m`,
	`foo @ 100`,
	`rate(foo[5m] @ 200 offset 1m)`,
	`topk(2, foo)`,
	`abs(foo)`,
	`sum by (a) (abs(foo))`,
	`foo + bar`,
	`sum(foo) / sum(bar)`,
	`sum by (a) ((foo))`,
	`sum by (a) (-foo)`,
	`sum by (a) (foo + bar)`,
	`abs(foo + bar)`,
	`sum by (a) (rate(foo[1m]) / rate(bar[1m]))`,
	`clamp_min(foo, 1)`,
	`foo @ start()`,
	`sum by (a) (foo @ end())`,
}

type verifHint struct {
	name string
	h    storage.SelectHints
}

func verifDurMs(d time.Duration) int64 { return int64(d / (time.Millisecond / time.Nanosecond)) }

// refHints: the select hints the reference engine (promql populateSeries) issues for
// every selector of the preprocessed expression.
func refHints(expr parser.Expr, start, end, step, lookback int64) []verifHint {
	var out []verifHint
	var evalRange time.Duration
	parser.Inspect(expr, func(node parser.Node, path []parser.Node) error {
		switch n := node.(type) {
		case *parser.VectorSelector:
			s, e := start, end
			if n.Timestamp != nil {
				s, e = *n.Timestamp, *n.Timestamp
			}
			if evalRange == 0 {
				s -= lookback
			} else {
				s -= verifDurMs(evalRange)
			}
			off := verifDurMs(n.OriginalOffset)
			h := storage.SelectHints{Start: s - off, End: e - off, Step: step, Range: verifDurMs(evalRange), Func: promExtractFuncFromPath(path)}
			evalRange = 0
			h.By, h.Grouping = promExtractGroupsFromPath(path)
			out = append(out, verifHint{n.Name, h})
		case *parser.MatrixSelector:
			evalRange = n.Range
		}
		return nil
	})
	return out
}

func verifSameStrings(a, b []string) bool {
	if len(a) != len(b) {
		return false
	}
	for i := range a {
		if a[i] != b[i] {
			return false
		}
	}
	return true
}

// VerifH16b: without plan rewrites, every storage select carries the reference engine's
// matchers, time range, step, range, function and grouping hints; and the hinted range
// covers every sample the selector may read at any step.
func VerifH16b() {
	qi := sym.Choice("query", len(verifHintQueries))
	qs := verifHintQueries[qi]
	start := sym.Int64("start", 0, verifR)
	instant := sym.Choice("instant", 2) == 1
	var end, step int64
	if instant {
		end, step = start, 0
	} else {
		step = sym.Int64("step", 1, verifR)
		end = start + sym.Int64("len", 0, verifR)
	}
	lookback := sym.Int64("lookback", 1, verifR)
	expr, err := parser.ParseExpr(qs)
	sym.Assert("C16/parse", err == nil)
	mint, maxt := sym.TimeMs(start), sym.TimeMs(end)
	plan := logicalplan.New(expr, mint, maxt).Optimize(logicalplan.NoOptimizers).Expr()
	want := refHints(plan, start, end, step, lookback)
	store := &stub.Queryable{Ser: []*stub.Series{
		stub.NewSeries(stub.Labels("__name__", "foo", "a", "x"), nil),
		stub.NewSeries(stub.Labels("__name__", "bar", "a", "x"), nil),
	}}
	sym.SetGOMAXPROCS(2)
	op, err := New(plan, store, mint, maxt, sym.DurMs(step), sym.DurMs(lookback))
	sym.Assert("C16/plan", err == nil)
	sym.Assert("C17/no-querier-before-exec", store.Opened == 0)
	ctx, cancel := context.WithCancel(context.Background())
	_, err = op.Series(ctx)
	sym.Assert("C16/series", err == nil)
	for n := 0; n < 4; n++ {
		// one batch is enough to make every operator load its series
		out, err := op.Next(ctx)
		sym.Assert("C16/next", err == nil)
		if out == nil {
			break
		}
	}
	sym.Assert("C16/select-count", len(store.Selects) == len(want))
	for _, w := range want {
		found := false
		for _, g := range store.Selects {
			name := ""
			for _, m := range g.Matchers {
				if m.Name == labels.MetricName {
					name = m.Value
				}
			}
			if name != w.name {
				continue
			}
			found = true
			sym.Assert("C16/time-range:"+qs, sym.And(g.Hints.Start == w.h.Start, g.Hints.End == w.h.End))
			sym.Assert("C16/querier-range:"+qs, sym.And(g.Mint == w.h.Start, g.Maxt == w.h.End))
			sym.Assert("C16/step:"+qs, g.Hints.Step == w.h.Step)
			sym.Assert("C16/range:"+qs, g.Hints.Range == w.h.Range)
			// D21: the reference sends no hint here, the engine inherits one from an ancestor
			sym.Known("KF-C16-D21", w.h.Func == "" && g.Hints.Func != "")
			sym.Assert("C16/func:"+qs, g.Hints.Func == w.h.Func)
			sym.Known("KF-C16-D21", !w.h.By && len(w.h.Grouping) == 0 && (g.Hints.By || len(g.Hints.Grouping) > 0))
			sym.Assert("C16/grouping:"+qs, g.Hints.By == w.h.By && verifSameStrings(g.Hints.Grouping, w.h.Grouping))
		}
		sym.Assert("C16/select-issued:"+qs, found)
	}
	sym.Assert("C17/queriers-closed", store.AllClosedOnce())
	cancel()
	sym.Reached("C16/end")
}
