package exchange

import (
	"context"

	"github.com/prometheus/prometheus/model/labels"

	"github.com/thanos-community/promql-engine/execution/model"
	"github.com/thanos-community/promql-engine/zzverif/stub"
	"github.com/thanos-community/promql-engine/zzverif/sym"
)

// verifConsume drains op like the engine's Exec loop does and reports how many batches
// were received before the stream ended, and the error (if any).
func verifConsume(ctx context.Context, op model.VectorOperator, max int) (batches int, err error) {
	for n := 0; n < max+2; n++ {
		out, e := op.Next(ctx)
		if e != nil {
			return batches, e
		}
		if out == nil {
			return batches, nil
		}
		batches++
	}
	return batches, nil
}

// VerifH14a: a concurrent operator (pull + drain goroutines) under cancellation at an
// arbitrary point: no deadlock, no leaked goroutine, and never a clean but truncated
// end of stream.
func VerifH14a() {
	B := sym.Tier(2, 3)
	t0 := sym.Int64("t0", -verifR, verifR)
	ops, _ := verifChildrenFull(1, B, t0)
	op := NewConcurrent(ops[0], 2)
	ctx, cancel := context.WithCancel(context.Background())
	go func() {
		cancel()
	}()
	n, err := verifConsume(ctx, op, B)
	sym.KnownEvent("KF-C14-D19", "truncated")
	if err == nil && n != B {
		sym.Known("KF-C14-D19", true)
		sym.Assert("C14/concurrent/no-truncated-success", false)
	}
	if err != nil {
		sym.Assert("C14/concurrent/error-is-ctx", err == context.Canceled)
	}
	cancel()
	sym.CheckLeaks()
	sym.Reached("C14/concurrent/end")
}

// VerifH14b: coalesce over two concurrent children under cancellation.
func VerifH14b() {
	B := 2
	t0 := sym.Int64("t0", -verifR, verifR)
	ops, _ := verifChildrenFull(2, B, t0)
	var children []model.VectorOperator
	for _, o := range ops {
		children = append(children, NewConcurrent(o, 2))
	}
	co := NewCoalesce(model.NewVectorPool(1), children...)
	ctx, cancel := context.WithCancel(context.Background())
	go func() {
		cancel()
	}()
	n, err := verifConsume(ctx, co, B)
	if err == nil && n != B {
		sym.Known("KF-C14-D19", true)
		sym.Assert("C14/coalesce/no-truncated-success", false)
	}
	cancel()
	sym.CheckLeaks()
	sym.Reached("C14/coalesce/end")
}

// verifChildrenFull: children whose samples are all present (values symbolic).
func verifChildrenFull(S, B int, t0 int64) ([]*stub.Op, int) {
	var ops []*stub.Op
	for c := 0; c < S; c++ {
		ser := stub.Labels("__name__", "m", "child", stub.Itoa(c))
		var batches [][]stub.Step
		for b := 0; b < B; b++ {
			batches = append(batches, []stub.Step{{T: t0 + int64(b), IDs: []uint64{0}, Vs: []float64{sym.Float64("c" + stub.Itoa(c) + "b" + stub.Itoa(b))}}})
		}
		ops = append(ops, stub.NewOp([]labels.Labels{ser}, batches, 1))
	}
	return ops, B
}

// VerifH14e: a consumer that stops pulling after cancellation while the producer still
// has more batches than the buffer holds: the pull goroutine must not stay blocked.
func VerifH14e() {
	B := 5
	t0 := sym.Int64("t0", -verifR, verifR)
	ops, _ := verifChildrenFull(1, B, t0)
	op := NewConcurrent(ops[0], 2)
	ctx, cancel := context.WithCancel(context.Background())
	taken := sym.IntRange("consumed", 1, 3)
	for i := 0; i < taken; i++ {
		out, err := op.Next(ctx)
		sym.Assert("C14/abandon/next", err == nil && len(out) == 1)
	}
	cancel()
	sym.CheckLeaks()
	sym.Reached("C14/abandon/end")
}

// VerifH15e: a concurrent operator whose child fails at batch e while the consumer is
// slower or faster than the producer (every schedule with bounded preemptions; the
// prefetch buffer holds 2 batches, the child has 4): the consumer receives the batches
// before the failure and then the child's error - never a clean end of stream.
func VerifH15e() {
	B := 4
	t0 := sym.Int64("t0", -verifR, verifR)
	ops, _ := verifChildrenFull(1, B, t0)
	failAt := 1 + sym.Choice("failAt", 3)
	ops[0].NextErrAt = failAt
	ops[0].NextErr = stub.ErrInjected
	op := NewConcurrent(ops[0], 2)
	ctx, cancel := context.WithCancel(context.Background())
	n, err := verifConsume(ctx, op, B)
	sym.Assert("C15/concurrent/child-error-surfaces", err != nil)
	if err != nil {
		sym.Assert("C15/concurrent/error-is-the-childs", err == stub.ErrInjected)
		sym.Assert("C15/concurrent/batches-before-error", n == failAt)
	}
	cancel()
	sym.CheckLeaks()
	sym.Reached("C15/concurrent/end")
}
