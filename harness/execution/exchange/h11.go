package exchange

import (
	"context"
	"errors"

	"github.com/prometheus/prometheus/model/labels"

	"github.com/thanos-community/promql-engine/execution/model"
	"github.com/thanos-community/promql-engine/zzverif/stub"
	"github.com/thanos-community/promql-engine/zzverif/sym"
)

const verifR = int64(1) << 41

var errInjected = errors.New("injected child failure")

// verifChildren builds S stub children with 1-2 series each and B batches of one step.
func verifChildren(S, B int, t0, dt int64) ([]*stub.Op, [][]labels.Labels) {
	var ops []*stub.Op
	var sers [][]labels.Labels
	// presence: every sample present except in one (child, batch) cell chosen here, where
	// every pattern is tried (schedules multiply with data patterns otherwise)
	focus := sym.Choice("focusCell", S*B+1)
	for c := 0; c < S; c++ {
		n := 1 + c%2
		var ser []labels.Labels
		for k := 0; k < n; k++ {
			ser = append(ser, stub.Labels("__name__", "m", "child", stub.Itoa(c), "k", stub.Itoa(k)))
		}
		var batches [][]stub.Step
		for b := 0; b < B; b++ {
			st := stub.Step{T: t0 + int64(b)*dt}
			for k := 0; k < n; k++ {
				tag := "c" + stub.Itoa(c) + "b" + stub.Itoa(b) + "k" + stub.Itoa(k)
				if c*B+b != focus || sym.Choice(tag+".present", 2) == 1 {
					st.IDs = append(st.IDs, uint64(k))
					st.Vs = append(st.Vs, sym.Float64(tag))
				}
			}
			batches = append(batches, []stub.Step{st})
		}
		ops = append(ops, stub.NewOp(ser, batches, 1))
		sers = append(sers, ser)
	}
	return ops, sers
}

// VerifH11a: coalesce over concurrent children under every schedule (bounded
// preemptions): merged output is the union with re-based IDs, independent of scheduling.
func VerifH11a() {
	S := sym.IntRange("S", 2, sym.Tier(2, 3))
	B := 2
	t0 := sym.Int64("t0", -verifR, verifR)
	dt := sym.Int64("dt", 1, verifR)
	ops, sers := verifChildren(S, B, t0, dt)
	var children []model.VectorOperator
	for _, o := range ops {
		children = append(children, NewConcurrent(o, 2))
	}
	co := NewCoalesce(model.NewVectorPool(1), children...)
	ctx, cancel := context.WithCancel(context.Background())
	all, err := co.Series(ctx)
	sym.Assert("C11/coalesce/series-err", err == nil)
	// concatenation in child order
	var offsets []int
	pos := 0
	for c := range sers {
		offsets = append(offsets, pos)
		for _, l := range sers[c] {
			sym.Assert("C11/coalesce/series-order", pos < len(all) && stub.SameLabels(all[pos], l))
			pos++
		}
	}
	sym.Assert("C11/coalesce/series-count", pos == len(all))
	for b := 0; b < B; b++ {
		out, err := co.Next(ctx)
		sym.Assert("C11/coalesce/next-err", err == nil)
		sym.Assert("C18/coalesce/one-vector", len(out) == 1)
		if len(out) != 1 {
			sym.Stop()
		}
		sv := out[0]
		sym.Assert("C18/coalesce/len", len(sv.SampleIDs) == len(sv.Samples))
		anyPresent := false
		want := 0
		for c, o := range ops {
			st := o.Batches[b][0]
			want += len(st.IDs)
			if len(st.IDs) > 0 {
				anyPresent = true
			}
			for j, id := range st.IDs {
				gid := uint64(offsets[c]) + id
				found := 0
				for k, oid := range sv.SampleIDs {
					if oid == gid {
						found++
						sym.Assert("C11/coalesce/value", sym.SameF(sv.Samples[k], st.Vs[j]))
					}
				}
				sym.Assert("C11/coalesce/each-sample-once", found == 1)
			}
		}
		sym.Assert("C11/coalesce/no-extra-samples", len(sv.SampleIDs) == want)
		if anyPresent {
			sym.Assert("C18/coalesce/T", sv.T == t0+int64(b)*dt)
		}
	}
	out, err := co.Next(ctx)
	sym.Assert("C18/coalesce/end", out == nil && err == nil)
	cancel()
	sym.CheckLeaks()
	sym.Reached("C11/coalesce/end")
}
