package aggregate

import (
	"context"
	"math"

	"github.com/prometheus/prometheus/model/labels"
	"github.com/prometheus/prometheus/promql/parser"

	"github.com/thanos-community/promql-engine/execution/model"
	"github.com/thanos-community/promql-engine/zzverif/stub"
	"github.com/thanos-community/promql-engine/zzverif/sym"
)

var verifKSeries = []labels.Labels{
	stub.Labels("__name__", "m", "a", "x", "b", "1"),
	stub.Labels("__name__", "m", "a", "x", "b", "2"),
	stub.Labels("__name__", "m", "a", "y", "b", "1"),
}

// better: y is strictly preferred over x by topk (NaN is least preferred).
func verifBetter(top bool, y, x float64) bool {
	if top {
		return sym.And(!math.IsNaN(y), sym.Or(math.IsNaN(x), y > x))
	}
	return sym.And(!math.IsNaN(y), sym.Or(math.IsNaN(x), y < x))
}

// VerifH04c: topk/bottomk operator: per step and group the k best present members
// (k evaluated per step; k<1 nothing; NaN / out-of-range k the reference's error), one
// step vector per step, input series identities preserved.
func VerifH04c() {
	top := sym.Choice("op", 2) == 0
	var op parser.ItemType = parser.TOPK
	if !top {
		op = parser.BOTTOMK
	}
	byA := sym.Choice("grouping", 2) == 1
	var grouping []string
	if byA {
		grouping = []string{"a"}
	}
	t0 := sym.Int64("t0", -verifR, verifR)
	shape := []int{2, 1}
	// one focus step: arbitrary presence, symbolic values and symbolic k; the other
	// steps carry concrete distinct values and k = 1 or 2
	kFocus := sym.Choice("kFocus", 3)
	stream := stub.SymStreamFocusAt("in", len(verifKSeries), shape, t0, 1, kFocus, true, 10)
	in := stub.NewOp(verifKSeries, stream, 2)
	var pb [][]stub.Step
	var ks []float64
	i := 0
	for _, n := range shape {
		var batch []stub.Step
		for s := 0; s < n; s++ {
			k := float64(1 + i%2)
			if i == kFocus {
				k = sym.Float64("k")
			}
			ks = append(ks, k)
			batch = append(batch, stub.Step{T: t0 + int64(i), IDs: []uint64{0}, Vs: []float64{k}})
			i++
		}
		pb = append(pb, batch)
	}
	paramOp := stub.NewOp(make([]labels.Labels, 1), pb, 2)
	a, err := NewKHashAggregate(model.NewVectorPool(2), in, paramOp, op, true, grouping, 2)
	sym.Assert("C04/k/new", err == nil)
	ctx, cancel := context.WithCancel(context.Background())
	defer cancel()
	outSeries, err := a.Series(ctx)
	sym.Assert("C04/k/series", err == nil && len(outSeries) == len(verifKSeries))
	sym.KnownEvent("KF-C13-D6", "kAggregate).aggregate")
	step := 0
	for b := range shape {
		// reference verdict for this batch: error iff some k is NaN or outside int64
		refErr := false
		for s := 0; s < shape[b]; s++ {
			k := ks[step+s]
			refErr = sym.Or(refErr, math.IsNaN(k), k > 9.223372036854775807e18, k < -9.223372036854775808e18)
		}
		out, err := a.Next(ctx)
		sym.Known("KF-C13-D6", true)
		sym.Assert("C04/k/error-iff-reference-errors", sym.Iff(err != nil, refErr))
		if err != nil {
			sym.Reached("C04/k/error-end")
			return
		}
		sym.Known("KF-C18-D7", byA)
		sym.Assert("C18/k/one-vector-per-step", len(out) == shape[b])
		if len(out) != shape[b] {
			sym.Reached("C04/k/d7-end")
			return
		}
		for s := 0; s < shape[b]; s++ {
			inStep := stream[b][s]
			sv := out[s]
			k := ks[step]
			sym.Assert("C18/k/T", len(inStep.IDs) == 0 || sv.T == inStep.T)
			sym.Assert("C18/k/len", len(sv.SampleIDs) == len(sv.Samples))
			// membership
			selected := map[uint64]bool{}
			for j, id := range sv.SampleIDs {
				sym.Assert("C18/k/id-range", int(id) < len(verifKSeries))
				sym.Assert("C18/k/id-unique", !selected[id])
				selected[id] = true
				found := false
				for jj, iid := range inStep.IDs {
					if iid == id {
						found = true
						sym.Assert("C04/k/value-is-members", sym.SameF(sv.Samples[j], inStep.Vs[jj]))
					}
				}
				sym.Assert("C04/k/selected-is-present", found)
			}
			// per group: count = min(k, present) for k >= 1, 0 for k < 1; nothing left
			// out is strictly better than something selected
			for _, grp := range []string{"x", "y"} {
				var present, chosen []int
				for jj, iid := range inStep.IDs {
					g := verifKSeries[iid].Get("a")
					if byA && g != grp {
						continue
					}
					if !byA && grp == "y" {
						continue
					}
					present = append(present, jj)
					if selected[iid] {
						chosen = append(chosen, jj)
					}
				}
				np := float64(len(present))
				nc := float64(len(chosen))
				// expected size
				// (k == 2^63 passes the reference's range test but converts to MinInt64 on
				// amd64, i.e. selects nothing — in both engines)
				want := sym.IteF(sym.Or(k < 1, k >= 9.223372036854775807e18), 0, sym.IteF(k < np, math.Floor(k), np))
				sym.Assert("C04/k/count", sym.EqF(nc, want))
				for _, c := range chosen {
					for _, p := range present {
						isChosen := false
						for _, c2 := range chosen {
							if c2 == p {
								isChosen = true
							}
						}
						if !isChosen {
							sym.Assert("C04/k/best-members", !verifBetter(top, inStep.Vs[p], inStep.Vs[c]))
						}
					}
				}
			}
			step++
		}
	}
	out, err := a.Next(ctx)
	sym.Assert("C18/k/end", out == nil && err == nil)
	sym.Reached("C04/k/end")
}
