package aggregate

import (
	"math"

	"github.com/prometheus/prometheus/promql/parser"

	"github.com/thanos-community/promql-engine/zzverif/stub"
	"github.com/thanos-community/promql-engine/zzverif/sym"
)

var verifAggOps = []parser.ItemType{
	parser.SUM, parser.MAX, parser.MIN, parser.COUNT, parser.GROUP, parser.AVG, parser.STDDEV, parser.STDVAR, parser.QUANTILE,
}

// refAggregate is the per-group reduction of the pinned Prometheus
// (promql/engine.go, (*evaluator).aggregation), members in input order.
func refAggregate(op parser.ItemType, q float64, vs []float64) float64 {
	value, mean := vs[0], vs[0]
	count := 1
	if op == parser.SUM {
		// the engine starts from +0; 0+v differs from v only in the sign of a zero
		// result, which EqF ignores. Written this way the two sides are the same term.
		value = 0 + vs[0]
	}
	switch op {
	case parser.STDVAR, parser.STDDEV:
		value = 0
	case parser.GROUP:
		value = 1
	}
	for _, v := range vs[1:] {
		switch op {
		case parser.SUM:
			value += v
		case parser.AVG:
			count++
			if math.IsInf(mean, 0) {
				if math.IsInf(v, 0) && (mean > 0) == (v > 0) {
					break
				}
				if !math.IsInf(v, 0) && !math.IsNaN(v) {
					break
				}
			}
			mean += v/float64(count) - mean/float64(count)
		case parser.MAX:
			if value < v || math.IsNaN(value) {
				value = v
			}
		case parser.MIN:
			if value > v || math.IsNaN(value) {
				value = v
			}
		case parser.COUNT:
			count++
		case parser.STDVAR, parser.STDDEV:
			count++
			delta := v - mean
			mean += delta / float64(count)
			value += delta * (v - mean)
		}
	}
	switch op {
	case parser.AVG:
		return mean
	case parser.COUNT:
		return float64(count)
	case parser.STDVAR:
		return value / float64(count)
	case parser.STDDEV:
		return math.Sqrt(value / float64(count))
	case parser.QUANTILE:
		return refQuantile(q, vs)
	}
	return value
}

// refQuantile mirrors promql.quantile on a copy sorted with Prometheus' Less (NaN first).
func refQuantile(q float64, in []float64) float64 {
	if len(in) == 0 || math.IsNaN(q) {
		return math.NaN()
	}
	if q < 0 {
		return math.Inf(-1)
	}
	if q > 1 {
		return math.Inf(+1)
	}
	vs := make([]float64, len(in))
	copy(vs, in)
	for a := 1; a < len(vs); a++ {
		for b := a; b > 0; b-- {
			if math.IsNaN(vs[b]) || vs[b] < vs[b-1] {
				if math.IsNaN(vs[b-1]) {
					break
				}
				vs[b], vs[b-1] = vs[b-1], vs[b]
			} else {
				break
			}
		}
	}
	n := float64(len(vs))
	rank := q * (n - 1)
	lowerIndex := math.Max(0, math.Floor(rank))
	upperIndex := math.Min(n-1, lowerIndex+1)
	weight := rank - math.Floor(rank)
	return vs[int(lowerIndex)]*(1-weight) + vs[int(upperIndex)]*weight
}

// partialSumOverflows: some prefix of finite members has an infinite running sum
// (the region of known finding D5: sum/count overflows where the incremental mean does not).
func partialSumOverflows(vs []float64) bool {
	sum := 0.0
	allFinite := true
	hit := false
	for _, v := range vs {
		sum += v
		allFinite = sym.And(allFinite, !math.IsNaN(v), !math.IsInf(v, 0))
		hit = sym.Or(hit, sym.And(allFinite, math.IsInf(sum, 0)))
	}
	return hit
}

// classF: same special-value class (both NaN, same infinity, or both finite).
func classF(a, b float64) bool {
	return sym.Or(
		sym.And(math.IsNaN(a), math.IsNaN(b)),
		sym.And(math.IsInf(a, 1), math.IsInf(b, 1)),
		sym.And(math.IsInf(a, -1), math.IsInf(b, -1)),
		sym.And(!math.IsNaN(a), !math.IsInf(a, 0), !math.IsNaN(b), !math.IsInf(b, 0)))
}

// VerifH04a: every scalar-table accumulator (grouped aggregation path), used twice
// (reset/reuse), against the reference reduction.
func VerifH04a() {
	oi := sym.Choice("op", len(verifAggOps))
	op := verifAggOps[oi]
	n := sym.IntRange("n", 1, sym.Tier(3, 4))
	mk, err := makeAccumulatorFunc(op)
	sym.Assert("C04/acc/constructor", err == nil)
	acc := mk()
	// first use with unrelated data
	acc.Reset(sym.Float64("q0"))
	sym.Assert("C04/acc/empty", !acc.HasValue())
	junk := sym.IntRange("junk", 0, 2)
	for i := 0; i < junk; i++ {
		acc.AddFunc(sym.Float64("j" + stub.Itoa(i)))
	}
	// second use
	q := sym.Float64("q")
	acc.Reset(q)
	sym.Assert("C04/acc/reset-empties", !acc.HasValue())
	vs := make([]float64, n)
	for i := range vs {
		vs[i] = sym.Float64("v" + stub.Itoa(i))
		acc.AddFunc(vs[i])
	}
	ref := make([]float64, n)
	copy(ref, vs)
	sym.Assert("C04/acc/has", acc.HasValue())
	got := acc.ValueFunc()
	want := refAggregate(op, q, ref)
	name := parser.ItemTypeStr[op]
	switch op {
	case parser.STDDEV, parser.STDVAR:
		// Kahan-compensated vs plain Welford: values are compared for a single member
		// only (exact); for larger groups the reuse law below is what is decided here.
		_ = want
		fresh := mk()
		fresh.Reset(q)
		for _, v := range ref {
			fresh.AddFunc(v)
		}
		sym.Assert("C04/acc/reuse:"+name, sym.SameF(got, fresh.ValueFunc()))
	case parser.AVG:
		// different algorithms: only the special-value class is compared (DESIGN §3.4 CLASS)
		if op == parser.AVG {
			sym.Known("KF-C04-D5", partialSumOverflows(ref))
		}
		sym.Assert("C04/acc/class:"+name, classF(got, want))
	default:
		if op == parser.MAX || op == parser.MIN {
			anyNaN := false
			for _, v := range ref {
				anyNaN = sym.Or(anyNaN, math.IsNaN(v))
			}
			sym.Known("KF-C04-D4", anyNaN)
		}
		sym.Assert("C04/acc/value:"+name, sym.EqF(got, want))
	}
	sym.Reached("C04/acc/end")
}

var verifVecOps = []parser.ItemType{parser.SUM, parser.MAX, parser.MIN, parser.COUNT, parser.GROUP, parser.AVG}

// VerifH04v: the vectorised accumulators (aggregation without grouping labels).
func VerifH04v() {
	oi := sym.Choice("op", len(verifVecOps))
	op := verifVecOps[oi]
	n := sym.IntRange("n", 1, sym.Tier(3, 4))
	f, err := newVectorAccumulator(op)
	sym.Assert("C04/vec/constructor", err == nil)
	vs := make([]float64, n)
	ref := make([]float64, n)
	for i := range vs {
		vs[i] = sym.Float64("v" + stub.Itoa(i))
		ref[i] = vs[i]
	}
	got := f(vs)
	for i := range vs {
		sym.Assert("C04/vec/input-untouched", sym.SameF(vs[i], ref[i]))
	}
	want := refAggregate(op, 0, ref)
	name := parser.ItemTypeStr[op]
	if op == parser.AVG {
		sym.Known("KF-C04-D5", partialSumOverflows(ref))
		sym.Assert("C04/vec/class:"+name, classF(got, want))
	} else {
		sym.Assert("C04/vec/value:"+name, sym.EqF(got, want))
	}
	sym.Reached("C04/vec/end")
}
