package aggregate

import (
	"github.com/prometheus/prometheus/promql/parser"

	"github.com/thanos-community/promql-engine/zzverif/stub"
	"github.com/thanos-community/promql-engine/zzverif/sym"
)

var verifRealOps = []parser.ItemType{parser.AVG, parser.STDVAR, parser.STDDEV, parser.SUM}

// VerifH04r: avg / stdvar / stddev / sum accumulators against the reference reduction
// under the exact-real interpretation of floats ("equal up to rounding"): the engine's
// sum/count and Kahan-compensated Welford recurrences and the reference's incremental
// mean and plain Welford recurrences are the same rational functions of finite members.
func VerifH04r() {
	op := verifRealOps[sym.Choice("op", len(verifRealOps))]
	n := sym.IntRange("n", 1, sym.Tier(3, 4))
	mk, err := makeAccumulatorFunc(op)
	sym.Assert("C04/real/constructor", err == nil)
	acc := mk()
	acc.Reset(0)
	vs := make([]float64, n)
	for i := range vs {
		vs[i] = sym.Float64("v" + stub.Itoa(i))
		acc.AddFunc(vs[i])
	}
	got := acc.ValueFunc()
	want := refAggregate(op, 0, vs)
	sym.Assert("C04/real/value:"+parser.ItemTypeStr[op], sym.EqR(got, want))
	if op == parser.SUM || op == parser.AVG {
		// vectorised path and any member order give the same real value
		f, err := newVectorAccumulator(op)
		sym.Assert("C04/real/vec-constructor", err == nil)
		rev := make([]float64, n)
		for i := range vs {
			rev[n-1-i] = vs[i]
		}
		sym.Assert("C04/real/vectorised-and-order:"+parser.ItemTypeStr[op], sym.EqR(f(rev), want))
	}
	sym.Reached("C04/real/end")
}
