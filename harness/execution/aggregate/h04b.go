package aggregate

import (
	"context"

	"github.com/prometheus/prometheus/model/labels"
	"github.com/prometheus/prometheus/promql/parser"

	"github.com/thanos-community/promql-engine/execution/model"
	"github.com/thanos-community/promql-engine/zzverif/stub"
	"github.com/thanos-community/promql-engine/zzverif/sym"
)

var verifSeriesCfgs = [][]labels.Labels{
	{stub.Labels("__name__", "m", "a", "x"), stub.Labels("__name__", "m", "a", "y")},
	{stub.Labels("__name__", "m", "a", "x", "b", "1"), stub.Labels("__name__", "m", "a", "x", "b", "2"), stub.Labels("__name__", "n", "a", "y")},
	{stub.Labels("__name__", "m1", "a", "x"), stub.Labels("__name__", "m2", "a", "x")},
}

type verifGrouping struct {
	by     bool
	labels []string
}

var verifGroupings = []verifGrouping{
	{true, nil}, {true, []string{"a"}}, {true, []string{"b"}}, {true, []string{"b", "a"}}, {true, []string{"__name__"}},
	{false, nil}, {false, []string{"a"}}, {false, []string{"b"}}, {false, []string{"__name__", "a"}},
}

func verifIn(xs []string, x string) bool {
	for _, y := range xs {
		if y == x {
			return true
		}
	}
	return false
}

// refGroupLabels: the output label set of the reference engine for one input series.
func refGroupLabels(l labels.Labels, g verifGrouping) labels.Labels {
	var out labels.Labels
	for _, lb := range l {
		if g.by {
			if verifIn(g.labels, lb.Name) {
				out = append(out, lb)
			}
		} else {
			if lb.Name != labels.MetricName && !verifIn(g.labels, lb.Name) {
				out = append(out, lb)
			}
		}
	}
	return out
}

func verifKey(l labels.Labels) string {
	s := ""
	for _, lb := range l {
		s += lb.Name + "=" + lb.Value + ","
	}
	return s
}

const verifR = int64(1) << 41

var verifOpsB = []parser.ItemType{parser.SUM, parser.COUNT, parser.QUANTILE, parser.GROUP, parser.MIN}

// VerifH04b: the hash aggregate operator over a stub child: grouping, labels, values,
// batching, per-step parameters.
func VerifH04b() {
	ci := sym.Choice("cfg", len(verifSeriesCfgs))
	gi := sym.Choice("grouping", len(verifGroupings))
	oi := sym.Choice("op", sym.Tier(3, len(verifOpsB)))
	series, g, op := verifSeriesCfgs[ci], verifGroupings[gi], verifOpsB[oi]
	if sym.Tier(0, 1) == 0 && op != parser.SUM && op != parser.COUNT && !(ci == 0 && gi <= 1) {
		// quick tier: order-sensitive operators only on the first configuration
		// (per-step parameter plumbing); grouping/label coverage comes from sum/count
		sym.Stop()
	}
	t0 := sym.Int64("t0", -verifR, verifR)
	dt := sym.Int64("dt", 1, verifR)
	shape := []int{2, 1}
	stream := stub.SymStream("in", len(series), shape, t0, dt)
	in := stub.NewOp(series, stream, 2)
	var paramOp model.VectorOperator
	var params []float64
	if op == parser.QUANTILE {
		var pb [][]stub.Step
		i := 0
		for _, n := range shape {
			var batch []stub.Step
			for s := 0; s < n; s++ {
				// concrete, pairwise different parameters: a parameter delivered to the
				// wrong step changes the result (quantile arithmetic itself is H04a's)
				q := []float64{1, 0, 0.5}[i]
				params = append(params, q)
				batch = append(batch, stub.Step{T: t0 + int64(i)*dt, IDs: []uint64{0}, Vs: []float64{q}})
				i++
			}
			pb = append(pb, batch)
		}
		paramOp = stub.NewOp(make([]labels.Labels, 1), pb, 2)
	} else {
		params = make([]float64, 3)
	}
	grouping := append([]string(nil), g.labels...)
	a, err := NewHashAggregate(model.NewVectorPool(2), in, paramOp, op, g.by, grouping, 2)
	sym.Assert("C04/op/new", err == nil)
	ctx, cancel := context.WithCancel(context.Background())
	defer cancel()

	seriesFirst := (ci+gi+oi)%2 == 1
	if sym.Tier(0, 1) == 1 {
		seriesFirst = sym.Choice("seriesFirst", 2) == 1
	}
	var outSeries []labels.Labels
	if seriesFirst {
		outSeries, err = a.Series(ctx)
		sym.Assert("C04/op/series-err", err == nil)
	}
	step := 0
	for b := 0; b < len(shape)+1; b++ {
		out, err := a.Next(ctx)
		sym.Assert("C04/op/next-err", err == nil)
		if b == len(shape) {
			sym.Assert("C18/aggregate/end", out == nil)
			break
		}
		if outSeries == nil {
			outSeries, err = a.Series(ctx)
			sym.Assert("C04/op/series-err", err == nil)
		}
		sym.Assert("C18/aggregate/one-vector-per-step", len(out) == shape[b])
		if len(out) != shape[b] {
			sym.Stop()
		}
		for s := 0; s < shape[b]; s++ {
			inStep := stream[b][s]
			sv := out[s]
			if len(inStep.IDs) > 0 {
				sym.Assert("C18/aggregate/T", sv.T == inStep.T)
			}
			sym.Assert("C18/aggregate/len", len(sv.SampleIDs) == len(sv.Samples))
			// reference: groups in order of first appearance
			var keys []string
			members := map[string][]float64{}
			lbls := map[string]labels.Labels{}
			for j, id := range inStep.IDs {
				gl := refGroupLabels(series[id], g)
				k := verifKey(gl)
				if _, ok := members[k]; !ok {
					keys = append(keys, k)
					lbls[k] = gl
				}
				members[k] = append(members[k], inStep.Vs[j])
			}
			sym.Assert("C04/op/group-count", len(sv.SampleIDs) == len(keys))
			seen := map[string]bool{}
			for j, id := range sv.SampleIDs {
				sym.Assert("C18/aggregate/id-range", int(id) < len(outSeries))
				if int(id) >= len(outSeries) {
					sym.Stop()
				}
				ol := outSeries[id]
				k := verifKey(ol)
				sym.Assert("C18/aggregate/id-unique", !seen[k])
				seen[k] = true
				ms, ok := members[k]
				sym.Known("KF-C04-D28", !g.by)
				sym.Assert("C04/op/labels", ok)
				if !ok {
					continue
				}
				sym.Assert("C19/aggregate/wellformed", stub.WellFormed(ol))
				if op == parser.MIN {
					anyNaN := false
					for _, v := range ms {
						anyNaN = sym.Or(anyNaN, v != v)
					}
					sym.Known("KF-C04-D4", anyNaN)
				}
				sym.Assert("C04/op/value:"+parser.ItemTypeStr[op], sym.EqF(sv.Samples[j], refAggregate(op, params[step], ms)))
			}
			step++
		}
	}
	// ended stays ended
	out, err := a.Next(ctx)
	sym.Assert("C18/aggregate/stays-ended", out == nil && err == nil)
	// Series() is stable
	again, err := a.Series(ctx)
	sym.Assert("C18/aggregate/series-stable", err == nil && len(again) == len(outSeries))
	sym.Assert("C18/aggregate/no-overlap", !in.Overlap)
	sym.Reached("C04/op/end")
}
