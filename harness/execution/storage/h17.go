package storage

import (
	"context"
	"errors"

	"github.com/prometheus/prometheus/model/labels"
	promstorage "github.com/prometheus/prometheus/storage"

	"github.com/thanos-community/promql-engine/zzverif/stub"
	"github.com/thanos-community/promql-engine/zzverif/sym"
)

var errVerifStorage = errors.New("injected storage failure")

var verifNames = []string{"s0", "s1", "s2", "s3", "s4"}

func verifStorage(n int) *stub.Queryable {
	var ser []*stub.Series
	for i := 0; i < n; i++ {
		ser = append(ser, stub.NewSeries(stub.Labels("__name__", "m", "a", verifNames[i]), nil))
	}
	ser = append(ser, stub.NewSeries(stub.Labels("__name__", "n", "a", "x"), nil))
	return &stub.Queryable{Ser: ser, FaultErr: errVerifStorage}
}

// VerifH17a: the series selector opens one querier per load, closes it exactly once on
// every path (success, storage error at any callback, panic at any callback), surfaces
// storage errors, shards the loaded series contiguously, and loads at most once.
func VerifH17a() {
	nSeries := sym.IntRange("series", 0, 5)
	q := verifStorage(nSeries)
	q.FaultMode = sym.Choice("faultMode", 4) // 0 none, 1 error, 2 panic(error), 3 panic(string)
	m := labels.MustNewMatcher(labels.MatchEqual, "__name__", "m")
	sel := newSeriesSelector(q, 0, 1000, 10, []*labels.Matcher{m}, promstorage.SelectHints{Start: 0, End: 1000})
	ctx := context.Background()
	numShards := sym.IntRange("shards", 1, 4)
	var got [][]SignedSeries
	var firstErr error
	panicked := false
	func() {
		defer func() {
			if r := recover(); r != nil {
				panicked = true
			}
		}()
		for sh := 0; sh < numShards; sh++ {
			ss, err := sel.GetSeries(ctx, sh, numShards)
			if err != nil && firstErr == nil {
				firstErr = err
			}
			got = append(got, ss)
		}
	}()
	mode := q.FaultMode
	q.FaultMode = 0 // the harness's own inspection below must not trigger faults
	sym.Assert("C17/selector/closed-exactly-once", q.AllClosedOnce())
	sym.Assert("C17/selector/at-most-one-querier", q.Opened <= 1)
	faulted := sym.Counter("faults") >= 0 && (q.Opened == 0 || firstErr != nil || panicked)
	_ = faulted
	if mode == 1 && firstErr != nil {
		sym.Assert("C15/selector/error-wraps", errors.Is(firstErr, errVerifStorage))
	}
	if firstErr == nil && !panicked {
		// no fault fired: the shards partition the matching series in storage order
		total := 0
		for sh, ss := range got {
			for _, s := range ss {
				sym.Assert("C02/shard/order", total < nSeries && s.Labels().Get("a") == verifNames[total%5] && s.Labels().Get("__name__") == "m")
				total++
			}
			_ = sh
		}
		sym.Assert("C02/shard/partition", total == nSeries)
	} else if firstErr != nil {
		// D25: a failed load must fail for every caller, not only the first
		for sh := 0; sh < numShards; sh++ {
			_, err := sel.GetSeries(ctx, sh, numShards)
			sym.Known("KF-C15-D25", true)
			sym.Assert("C15/selector/error-sticky", err != nil)
		}
	}
	sym.Reached("C17/selector/end")
}
