package execution

import (
	"github.com/prometheus/prometheus/promql/parser"

	"github.com/thanos-community/promql-engine/zzverif/sym"
)

// VerifProbeParse: can the real PromQL parser be interpreted?
func VerifProbeParse() {
	e, err := parser.ParseExpr(`sum by (a) (rate(foo{a="x", b!~"y.*"}[5m] offset 1m)) / on(a) group_left bar @ 100 > bool 1`)
	sym.Assert("parse", err == nil && e != nil)
	sym.Reached("parse/end")
}
