package function

import (
	"context"
	"math"

	"github.com/prometheus/prometheus/model/labels"
	"github.com/prometheus/prometheus/promql"
	"github.com/prometheus/prometheus/promql/parser"

	"github.com/thanos-community/promql-engine/execution/model"
	"github.com/thanos-community/promql-engine/query"
	"github.com/thanos-community/promql-engine/zzverif/stub"
	"github.com/thanos-community/promql-engine/zzverif/sym"
)

// instant functions: name and number of scalar arguments following the vector
var verifInstantFuncs = []struct {
	name    string
	scalars int
}{
	{"abs", 0}, {"ceil", 0}, {"floor", 0}, {"sqrt", 0}, {"exp", 0}, {"ln", 0}, {"log2", 0}, {"log10", 0},
	{"sin", 0}, {"cos", 0}, {"tan", 0}, {"asin", 0}, {"acos", 0}, {"atan", 0}, {"sinh", 0}, {"cosh", 0}, {"tanh", 0},
	{"asinh", 0}, {"acosh", 0}, {"atanh", 0}, {"rad", 0}, {"deg", 0},
	{"clamp", 2}, {"clamp_min", 1}, {"clamp_max", 1}, {"timestamp", 0}, {"scalar", 0},
}

func verifDrop(l labels.Labels) labels.Labels {
	var out labels.Labels
	for _, lb := range l {
		if lb.Name != labels.MetricName {
			out = append(out, lb)
		}
	}
	return out
}

// VerifH06b: the function operator over stub children, against the pinned Prometheus
// function kernels applied step by step.
func VerifH06b() {
	fi := sym.Choice("func", len(verifInstantFuncs))
	f := verifInstantFuncs[fi]
	// the second series has a label that sorts before __name__ (upper case) and spare capacity
	series := []labels.Labels{stub.Labels("__name__", "m", "a", "x"), stub.LabelsCap(2, "A", "1", "__name__", "m", "a", "y")}
	t0 := sym.Int64("t0", -verifR, verifR)
	dt := sym.Int64("dt", 1, verifR)
	shape := []int{2, 1}
	vec := stub.SymStreamFocus("v", len(series), shape, t0, dt)
	args := parser.Expressions{&parser.VectorSelector{Name: "m"}}
	ops := []model.VectorOperator{stub.NewOp(series, vec, 2)}
	// scalar argument streams; one of them may be absent at one step
	absentAt := -1
	if f.scalars > 0 {
		absentAt = sym.Choice("scalarAbsentAt", 4) - 1
	}
	scal := make([][]float64, f.scalars) // per argument, per step (NaN when absent)
	for a := 0; a < f.scalars; a++ {
		var st [][]stub.Step
		i := 0
		for b, n := range shape {
			var batch []stub.Step
			for s := 0; s < n; s++ {
				step := stub.Step{T: t0 + int64(i)*dt}
				v := sym.Float64("arg" + stub.Itoa(a) + "_" + stub.Itoa(b) + stub.Itoa(s))
				if a == 0 && i == absentAt {
					scal[a] = append(scal[a], math.NaN())
				} else {
					step.IDs, step.Vs = []uint64{0}, []float64{v}
					scal[a] = append(scal[a], v)
				}
				batch = append(batch, step)
				i++
			}
			st = append(st, batch)
		}
		ops = append(ops, stub.NewOp(make([]labels.Labels, 1), st, 2))
		args = append(args, &parser.NumberLiteral{Val: 0})
	}
	call, err := NewFunctionCall(parser.Functions[f.name])
	sym.Assert("C06/func/known", err == nil)
	expr := &parser.Call{Func: parser.Functions[f.name], Args: args}
	opts := &query.Options{Start: sym.TimeMs(t0), End: sym.TimeMs(t0 + 2*dt), Step: sym.DurMs(dt), StepsBatch: 2}
	o, err := NewFunctionOperator(expr, call, ops, 2, opts)
	sym.Assert("C06/func/new", err == nil)
	ctx, cancel := context.WithCancel(context.Background())
	defer cancel()
	seriesFirst := fi%2 == 0
	var outSeries []labels.Labels
	if seriesFirst {
		outSeries, err = o.Series(ctx)
		sym.Assert("C06/func/series", err == nil)
	}
	step := 0
	for b := range shape {
		out, err := o.Next(ctx)
		sym.Assert("C06/func/next", err == nil && len(out) == shape[b])
		if len(out) != shape[b] {
			sym.Stop()
		}
		if outSeries == nil {
			outSeries, err = o.Series(ctx)
			sym.Assert("C06/func/series", err == nil)
		}
		for s := 0; s < shape[b]; s++ {
			in := vec[b][s]
			sv := out[s]
			sym.Assert("C18/func/T", sv.T == in.T)
			sym.Assert("C18/func/len", len(sv.SampleIDs) == len(sv.Samples))
			// reference: the real kernel on this step's vector
			var pv promql.Vector
			for j, id := range in.IDs {
				pv = append(pv, promql.Sample{Metric: series[id], Point: promql.Point{T: in.T, V: in.Vs[j]}})
			}
			vals := []parser.Value{pv}
			for a := 0; a < f.scalars; a++ {
				vals = append(vals, promql.Vector{promql.Sample{Point: promql.Point{V: scal[a][step]}}})
			}
			want := promql.FunctionCalls[f.name](vals, args, &promql.EvalNodeHelper{Ts: in.T})
			if f.name == "scalar" {
				// a scalar-typed stream: exactly one value per step
				sym.Known("KF-C06-D26", len(in.IDs) == 0)
				sym.Assert("C06/scalar/one-value-per-step", len(sv.Samples) == 1)
				if len(sv.Samples) == 1 {
					sym.Assert("C06/scalar/value", sym.EqF(sv.Samples[0], want[0].V))
				}
				step++
				continue
			}
			if f.name == "clamp" {
				sym.Known("KF-C06-D11", scal[1][step] < scal[0][step])
			}
			sym.Assert("C06/func/count:"+f.name, len(sv.Samples) == len(want))
			if len(sv.Samples) != len(want) {
				step++
				continue
			}
			for j := range want {
				id := sv.SampleIDs[j]
				sym.Assert("C18/func/id-range", int(id) < len(outSeries))
				if int(id) >= len(outSeries) {
					sym.Stop()
				}
				sym.Assert("C06/func/labels", stub.SameLabels(outSeries[id], want[j].Metric))
				if f.name == "timestamp" {
					sym.Known("KF-C06-D12", true)
				}
				sym.Assert("C06/func/value:"+f.name, sym.EqF(sv.Samples[j], want[j].V))
			}
			step++
		}
	}
	out, err := o.Next(ctx)
	sym.Assert("C18/func/end", out == nil && err == nil)
	for k := range series {
		orig := []labels.Labels{stub.Labels("__name__", "m", "a", "x"), stub.Labels("A", "1", "__name__", "m", "a", "y")}[k]
		sym.Assert("C17/func/input-labels-untouched", stub.SameLabels(series[k], orig))
	}
	sym.Reached("C06/func/end")
}
