package function

import (
	"context"

	"github.com/prometheus/prometheus/promql/parser"

	"github.com/thanos-community/promql-engine/query"
	"github.com/thanos-community/promql-engine/zzverif/sym"
)

// VerifH06n: argument-less functions (time, pi): one value per grid step with the
// reference value, for every step of any window.
func VerifH06n() {
	name := []string{"time", "pi"}[sym.Choice("func", 2)]
	K := sym.IntRange("K", 1, sym.Tier(5, 7))
	start := sym.Int64("start", -verifR, verifR)
	var step, end int64
	if K == 1 && sym.Choice("instant", 2) == 1 {
		step, end = 0, start
	} else {
		step = sym.Int64("step", 1, verifR)
		extra := sym.Int64("extra", 0, verifR)
		sym.Assume(extra < step)
		end = start + int64(K-1)*step + extra
	}
	opts := &query.Options{Start: sym.TimeMs(start), End: sym.TimeMs(end), Step: sym.DurMs(step), StepsBatch: 2}
	call, err := NewFunctionCall(parser.Functions[name])
	sym.Assert("C06/noarg/known", err == nil)
	o, err := NewFunctionOperator(&parser.Call{Func: parser.Functions[name]}, call, nil, 2, opts)
	sym.Assert("C06/noarg/new", err == nil)
	ctx := context.Background()
	series, err := o.Series(ctx)
	sym.Assert("C18/noarg/series", err == nil)
	i := 0
	lenMismatch := false
	for {
		out, err := o.Next(ctx)
		sym.Assert("C06/noarg/next", err == nil)
		if out == nil {
			break
		}
		sym.Assert("C18/noarg/batch-size", len(out) <= 2 && len(out) > 0)
		for _, sv := range out {
			sym.Assert("C07/noarg/no-extra-step", i < K)
			ts := start + int64(i)*step
			sym.Assert("C07/noarg/T-on-grid", sv.T == ts)
			sym.Assert("C06/noarg/one-value", len(sv.Samples) == 1)
			if len(sv.Samples) == 1 {
				want := float64(ts) / 1000
				if name == "pi" {
					want = 3.141592653589793
				}
				sym.Assert("C06/noarg/value", sym.SameF(sv.Samples[0], want))
			}
			if len(sv.SampleIDs) != len(sv.Samples) {
				lenMismatch = true
			}
			for _, id := range sv.SampleIDs {
				sym.Known("KF-C06-D27", true)
				sym.Assert("C18/noarg/id-indexes-series-list", int(id) < len(series))
			}
			i++
		}
	}
	sym.Assert("C07/noarg/step-count", i == K)
	sym.Reached("C06/noarg/end")
	sym.Known("KF-C06-D27", true)
	sym.Assert("C18/noarg/len", !lenMismatch)
}
