package function

import (
	_ "unsafe"

	"github.com/thanos-community/promql-engine/zzverif/stub"
	"github.com/thanos-community/promql-engine/zzverif/sym"
)

type promBucket struct {
	upperBound float64
	count      float64
}

//go:linkname promBucketQuantile github.com/prometheus/prometheus/promql.bucketQuantile
func promBucketQuantile(q float64, buckets []promBucket) float64

// VerifH06d: the histogram_quantile kernel (sorting, coalescing, monotonic repair,
// interpolation) against the pinned Prometheus kernel on symbolic classic buckets.
func VerifH06d() {
	n := sym.IntRange("n", 1, sym.Tier(2, 3))
	q := sym.Float64("q")
	eng := make(buckets, n)
	ref := make([]promBucket, n)
	for i := 0; i < n; i++ {
		ub := sym.Float64("le" + stub.Itoa(i))
		c := sym.Float64("count" + stub.Itoa(i))
		sym.Assume(ub == ub) // a bucket boundary is parsed from a label: never NaN... (ParseFloat accepts NaN; excluded here)
		eng[i] = le{upperBound: ub, count: c}
		ref[i] = promBucket{upperBound: ub, count: c}
	}
	got := bucketQuantile(q, eng)
	want := promBucketQuantile(q, ref)
	sym.Assert("C06/histogram/kernel", sym.EqF(got, want))
	sym.Reached("C06/histogram/end")
}
