package function

import (
	"github.com/prometheus/prometheus/promql"
	"github.com/prometheus/prometheus/promql/parser"

	"github.com/thanos-community/promql-engine/zzverif/stub"
	"github.com/thanos-community/promql-engine/zzverif/sym"
)

const verifR = int64(1) << 41

var verifRangeFuncs = []string{
	"rate", "increase", "delta", "irate", "idelta", "deriv", "changes", "resets",
	"sum_over_time", "max_over_time", "min_over_time", "avg_over_time", "stddev_over_time",
	"stdvar_over_time", "count_over_time", "last_over_time", "present_over_time",
}

// ranges in ms that the selector may carry: whole seconds and not (D2).
var verifRanges = []int64{60000, 90500, 1, 999}

// VerifH03b: every range-function kernel against the pinned Prometheus kernel on the
// same symbolic window.
func VerifH03b() {
	fi := sym.Choice("func", len(verifRangeFuncs))
	name := verifRangeFuncs[fi]
	n := sym.IntRange("n", 0, sym.Tier(2, 3))
	ri := sym.Choice("range", sym.Tier(2, len(verifRanges)))
	selRange := verifRanges[ri]
	step := sym.Int64("stepTime", -verifR, verifR)
	off := sym.Int64("offset", -verifR, verifR)

	// window: n non-stale points with increasing timestamps inside [maxt-range, maxt]
	maxt := step - off
	pts := make([]promql.Point, n)
	for i := 0; i < n; i++ {
		pts[i].T = sym.Int64("t"+stub.Itoa(i), -2*verifR, 2*verifR)
		pts[i].V = sym.Float64("v" + stub.Itoa(i))
		sym.Assume(pts[i].T >= maxt-selRange)
		sym.Assume(pts[i].T <= maxt)
		if i > 0 {
			sym.Assume(pts[i-1].T < pts[i].T)
		}
	}
	ref := make([]promql.Point, n)
	copy(ref, pts)

	got := Funcs[name](FunctionArgs{Points: pts, StepTime: step, SelectRange: selRange, Offset: off})
	present := got.Point != InvalidSample.Point

	var want promql.Vector
	if n > 0 {
		args := parser.Expressions{&parser.MatrixSelector{
			Range:          sym.DurMs(selRange),
			VectorSelector: &parser.VectorSelector{Name: "m", Offset: sym.DurMs(off), OriginalOffset: sym.DurMs(off)},
		}}
		vals := []parser.Value{promql.Matrix{promql.Series{Points: ref}}}
		want = promql.FunctionCalls[name](vals, args, &promql.EvalNodeHelper{Ts: step})
	}
	sym.Known("KF-C03-D3", sym.And(step == -1))
	sym.Assert("C03/kernel/presence:"+name, sym.Iff(present, len(want) == 1))
	if len(want) == 1 {
		sym.Known("KF-C03-D3", sym.And(step == -1))
		if name == "rate" {
			sym.Known("KF-C03-D2", selRange%1000 != 0)
		}
		sym.Assert("C03/kernel/value:"+name, sym.Implies(present, sym.And(got.T == step, sym.SameF(got.V, want[0].V))))
	}
	sym.Reached("C03/kernel/end")
}
