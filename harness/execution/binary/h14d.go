package binary

import (
	"context"
	"errors"

	"github.com/prometheus/prometheus/model/labels"
	"github.com/prometheus/prometheus/promql/parser"

	"github.com/thanos-community/promql-engine/execution/model"
	"github.com/thanos-community/promql-engine/zzverif/stub"
	"github.com/thanos-community/promql-engine/zzverif/sym"
)

var errVerifSeries = errors.New("injected Series failure")

// VerifH14d: the vector-vector operator when loading series fails on either or both
// sides (e.g. storage cancelled): the error surfaces, nothing deadlocks, no goroutine
// stays behind.
func VerifH14d() {
	lser := []labels.Labels{stub.Labels("__name__", "foo", "a", "x")}
	rser := []labels.Labels{stub.Labels("__name__", "bar", "a", "x")}
	st := [][]stub.Step{{{T: 0, IDs: []uint64{0}, Vs: []float64{sym.Float64("v")}}}}
	lop := stub.NewOp(lser, st, 1)
	rop := stub.NewOp(rser, st, 1)
	mode := sym.Choice("failing", 4) // 0 none, 1 lhs, 2 rhs, 3 both
	if mode == 1 || mode == 3 {
		lop.SeriesErr = errVerifSeries
	}
	if mode == 2 || mode == 3 {
		rop.SeriesErr = errVerifSeries
	}
	m := &parser.VectorMatching{Card: parser.CardOneToOne, On: true, MatchingLabels: []string{"a"}}
	o, err := NewVectorOperator(model.NewVectorPool(1), lop, rop, m, parser.ADD, false)
	sym.Assert("C14/vv/new", err == nil)
	ctx, cancel := context.WithCancel(context.Background())
	viaNext := sym.Choice("viaNext", 2) == 1
	if viaNext {
		_, err = o.Next(ctx)
	} else {
		_, err = o.Series(ctx)
	}
	sym.Assert("C15/vv/series-error-surfaces", (err != nil) == (mode != 0))
	if err != nil {
		sym.Assert("C15/vv/error-wraps", errors.Is(err, errVerifSeries))
	}
	cancel()
	sym.CheckLeaks()
	sym.Reached("C14/vv/end")
}
