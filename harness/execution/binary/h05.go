package binary

import (
	"context"
	_ "unsafe"

	"github.com/prometheus/prometheus/model/histogram"
	"github.com/prometheus/prometheus/model/labels"
	"github.com/prometheus/prometheus/promql"
	"github.com/prometheus/prometheus/promql/parser"

	"github.com/thanos-community/promql-engine/execution/model"
	"github.com/thanos-community/promql-engine/zzverif/stub"
	"github.com/thanos-community/promql-engine/zzverif/sym"
)

//go:linkname promVectorElemBinop github.com/prometheus/prometheus/promql.vectorElemBinop
func promVectorElemBinop(op parser.ItemType, lhs, rhs float64, hlhs, hrhs *histogram.FloatHistogram) (float64, *histogram.FloatHistogram, bool)

//go:linkname promScalarBinop github.com/prometheus/prometheus/promql.scalarBinop
func promScalarBinop(op parser.ItemType, lhs, rhs float64) float64

//go:linkname promResultMetric github.com/prometheus/prometheus/promql.resultMetric
func promResultMetric(lhs, rhs labels.Labels, op parser.ItemType, matching *parser.VectorMatching, enh *promql.EvalNodeHelper) labels.Labels

const verifR = int64(1) << 41

var verifBinOps = []parser.ItemType{
	parser.ADD, parser.SUB, parser.MUL, parser.DIV, parser.POW, parser.MOD, parser.ATAN2,
	parser.EQLC, parser.NEQ, parser.GTR, parser.LSS, parser.GTE, parser.LTE,
}

func verifKey(l labels.Labels) string {
	s := ""
	for _, lb := range l {
		s += lb.Name + "=" + lb.Value + ","
	}
	return s
}

func verifDropName(l labels.Labels) labels.Labels {
	var out labels.Labels
	for _, lb := range l {
		if lb.Name != labels.MetricName {
			out = append(out, lb)
		}
	}
	return out
}

// VerifH05a: vector-scalar and scalar-scalar operator over stub children, all 13
// operators, scalar on either side, with and without bool; the scalar may be absent at a step.
func VerifH05a() {
	op := verifBinOps[sym.Choice("op", len(verifBinOps))]
	side := ScalarSide(sym.Choice("side", 3))
	returnBool := false
	if op.IsComparisonOperator() {
		returnBool = sym.Choice("bool", 2) == 1
		if side == ScalarSideBoth {
			returnBool = true // the parser requires bool between scalars
		}
	}
	series := []labels.Labels{stub.Labels("__name__", "m", "a", "x"), stub.Labels("__name__", "m", "a", "y")}
	if side == ScalarSideBoth {
		series = make([]labels.Labels, 1)
	} else if op.IsComparisonOperator() && sym.Tier(0, 1) == 0 {
		// quick tier: every kept/dropped decision forks; one series keeps this tractable
		series = series[:1]
	}
	t0 := sym.Int64("t0", -verifR, verifR)
	dt := sym.Int64("dt", 1, verifR)
	shape := []int{2, 1}
	var vec [][]stub.Step
	if side == ScalarSideBoth {
		i := 0
		for b, n := range shape {
			var batch []stub.Step
			for s := 0; s < n; s++ {
				batch = append(batch, stub.Step{T: t0 + int64(i)*dt, IDs: []uint64{0}, Vs: []float64{sym.Float64("l" + stub.Itoa(b) + stub.Itoa(s))}})
				i++
			}
			vec = append(vec, batch)
		}
	} else {
		if sym.Tier(0, 1) == 1 && !op.IsComparisonOperator() {
			vec = stub.SymStream("v", len(series), shape, t0, dt)
		} else {
			vec = stub.SymStreamFocus("v", len(series), shape, t0, dt)
		}
	}
	// scalar stream: one sample per step, or none (e.g. scalar(v) of an empty vector is NaN
	// but an absent scalar operand must behave as NaN too)
	var sc [][]stub.Step
	var scVals []float64
	scFocus := -1
	if side != ScalarSideBoth && sym.Tier(0, 1) == 0 {
		scFocus = sym.Choice("scalarAbsentAt", 4) // step index, or 3 = never absent
	}
	i := 0
	for b, n := range shape {
		var batch []stub.Step
		for s := 0; s < n; s++ {
			st := stub.Step{T: t0 + int64(i)*dt}
			v := sym.Float64("s" + stub.Itoa(b) + stub.Itoa(s))
			present := true
			if side != ScalarSideBoth {
				if scFocus >= 0 {
					present = i != scFocus
				} else {
					present = sym.Choice("sp"+stub.Itoa(b)+stub.Itoa(s), 2) == 0
				}
			}
			if present {
				st.IDs, st.Vs = []uint64{0}, []float64{v}
				scVals = append(scVals, v)
			} else {
				scVals = append(scVals, nanF())
			}
			batch = append(batch, st)
			i++
		}
		sc = append(sc, batch)
	}
	next := stub.NewOp(series, vec, 2)
	scalar := stub.NewOp(make([]labels.Labels, 1), sc, 2)
	o, err := NewScalar(model.NewVectorPool(2), next, scalar, op, side, returnBool)
	sym.Assert("C05/scalar/new", err == nil)
	ctx, cancel := context.WithCancel(context.Background())
	defer cancel()
	outSeries, err := o.Series(ctx)
	sym.Assert("C05/scalar/series", err == nil && len(outSeries) == len(series))
	step := 0
	for b := range shape {
		out, err := o.Next(ctx)
		sym.Assert("C05/scalar/next", err == nil && len(out) == shape[b])
		if len(out) != shape[b] {
			sym.Stop()
		}
		for s := 0; s < shape[b]; s++ {
			in := vec[b][s]
			sv := out[s]
			sym.Assert("C18/scalar/T", sv.T == in.T)
			// reference
			var wantIDs []uint64
			var wantVs []float64
			for j, id := range in.IDs {
				lv, rv := in.Vs[j], scVals[step]
				swap := side == ScalarSideLeft
				if swap {
					lv, rv = rv, lv
				}
				var value float64
				keep := true
				if side == ScalarSideBoth {
					value = promScalarBinop(op, lv, rv)
				} else {
					value, _, keep = promVectorElemBinop(op, lv, rv, nil, nil)
					if op.IsComparisonOperator() && swap {
						value = rv
					}
					if returnBool {
						value = sym.IteF(keep, 1, 0)
						keep = true
					}
				}
				// keep may be symbolic: case split
				if keep {
					wantIDs = append(wantIDs, id)
					wantVs = append(wantVs, value)
				}
			}
			sym.Assert("C05/scalar/count", len(sv.SampleIDs) == len(wantIDs) && len(sv.Samples) == len(wantIDs))
			if len(sv.SampleIDs) != len(wantIDs) {
				sym.Stop()
			}
			for j := range wantIDs {
				sym.Assert("C05/scalar/id", sv.SampleIDs[j] == wantIDs[j])
				sym.Assert("C05/scalar/value:"+parser.ItemTypeStr[op], sym.EqF(sv.Samples[j], wantVs[j]))
			}
			step++
		}
	}
	out, err := o.Next(ctx)
	sym.Assert("C18/scalar/end", out == nil && err == nil)
	if side != ScalarSideBoth {
		for k := range series {
			want := series[k]
			if !op.IsComparisonOperator() || returnBool {
				want = verifDropName(want)
			}
			if returnBool {
				sym.Known("KF-C05-D8", true)
			}
			sym.Assert("C05/scalar/labels", stub.SameLabels(outSeries[k], want))
			sym.Assert("C17/scalar/input-labels-untouched", stub.SameLabels(series[k], stub.Labels("__name__", "m", "a", []string{"x", "y"}[k])))
		}
	}
	sym.Reached("C05/scalar/end")
}

func nanF() float64 {
	z := 0.0
	return z / z
}

// ---------------------------------------------------------------- vector-vector

type verifVV struct {
	name     string
	lhs, rhs []labels.Labels
	matching parser.VectorMatching
}

var verifVVCfgs = []verifVV{
	{"1:1 on(a)",
		[]labels.Labels{stub.Labels("__name__", "foo", "a", "x", "b", "1"), stub.Labels("__name__", "foo", "a", "y", "b", "1")},
		[]labels.Labels{stub.Labels("__name__", "bar", "a", "x"), stub.Labels("__name__", "bar", "a", "y", "c", "z")},
		parser.VectorMatching{Card: parser.CardOneToOne, On: true, MatchingLabels: []string{"a"}}},
	{"1:1 ignoring(b), dup lhs",
		[]labels.Labels{stub.Labels("__name__", "foo", "a", "x", "b", "1"), stub.Labels("__name__", "foo", "a", "x", "b", "2")},
		[]labels.Labels{stub.Labels("__name__", "bar", "a", "x"), stub.Labels("__name__", "bar", "a", "y")},
		parser.VectorMatching{Card: parser.CardOneToOne, On: false, MatchingLabels: []string{"b"}}},
	{"1:1 on(a), dup rhs",
		[]labels.Labels{stub.Labels("__name__", "foo", "a", "x")},
		[]labels.Labels{stub.Labels("__name__", "bar", "a", "x", "c", "1"), stub.Labels("__name__", "bar", "a", "x", "c", "2")},
		parser.VectorMatching{Card: parser.CardOneToOne, On: true, MatchingLabels: []string{"a"}}},
	{"N:1 on(a) group_left",
		[]labels.Labels{stub.Labels("__name__", "foo", "a", "x", "b", "1"), stub.Labels("__name__", "foo", "a", "x", "b", "2")},
		[]labels.Labels{stub.Labels("__name__", "bar", "a", "x", "c", "z"), stub.Labels("__name__", "bar", "a", "y", "c", "w")},
		parser.VectorMatching{Card: parser.CardManyToOne, On: true, MatchingLabels: []string{"a"}}},
	{"N:1 on(a) group_left(c)",
		[]labels.Labels{stub.Labels("__name__", "foo", "a", "x", "b", "1"), stub.Labels("__name__", "foo", "a", "x", "b", "2")},
		[]labels.Labels{stub.Labels("__name__", "bar", "a", "x", "c", "z")},
		parser.VectorMatching{Card: parser.CardManyToOne, On: true, MatchingLabels: []string{"a"}, Include: []string{"c"}}},
	{"N:1 on(a) group_left(b) (included label also present on the many side)",
		[]labels.Labels{stub.Labels("__name__", "foo", "a", "x", "b", "1")},
		[]labels.Labels{stub.Labels("__name__", "bar", "a", "x", "b", "9")},
		parser.VectorMatching{Card: parser.CardManyToOne, On: true, MatchingLabels: []string{"a"}, Include: []string{"b"}}},
	{"1:N on(a) group_right",
		[]labels.Labels{stub.Labels("__name__", "bar", "a", "x", "c", "z")},
		[]labels.Labels{stub.Labels("__name__", "foo", "a", "x", "b", "1"), stub.Labels("__name__", "foo", "a", "x", "b", "2")},
		parser.VectorMatching{Card: parser.CardOneToMany, On: true, MatchingLabels: []string{"a"}}},
	{"N:1 dup one side",
		[]labels.Labels{stub.Labels("__name__", "foo", "a", "x", "b", "1")},
		[]labels.Labels{stub.Labels("__name__", "bar", "a", "x", "c", "1"), stub.Labels("__name__", "bar", "a", "x", "c", "2")},
		parser.VectorMatching{Card: parser.CardManyToOne, On: true, MatchingLabels: []string{"a"}}},
	// label slices with spare capacity from here on (an append would write into the child's memory)
	{"N:1 on(a) group_left(b) (included label sorts between the many side's labels)",
		[]labels.Labels{stub.LabelsCap(2, "__name__", "foo", "a", "x", "z", "1")},
		[]labels.Labels{stub.LabelsCap(2, "__name__", "bar", "a", "x", "b", "2")},
		parser.VectorMatching{Card: parser.CardManyToOne, On: true, MatchingLabels: []string{"a"}, Include: []string{"b"}}},
	{"N:1 on(a) group_left(c) (included label absent on the one side, present on the many side)",
		[]labels.Labels{stub.LabelsCap(2, "__name__", "foo", "a", "x", "c", "m")},
		[]labels.Labels{stub.LabelsCap(2, "__name__", "bar", "a", "x")},
		parser.VectorMatching{Card: parser.CardManyToOne, On: true, MatchingLabels: []string{"a"}, Include: []string{"c"}}},
	{"1:N on(a) group_right(c, d)",
		[]labels.Labels{stub.LabelsCap(2, "__name__", "bar", "a", "x", "c", "z", "d", "w")},
		[]labels.Labels{stub.LabelsCap(3, "__name__", "foo", "a", "x", "b", "1"), stub.LabelsCap(3, "__name__", "foo", "a", "x", "b", "2")},
		parser.VectorMatching{Card: parser.CardOneToMany, On: true, MatchingLabels: []string{"a"}, Include: []string{"c", "d"}}},
}

var verifVVOps = []parser.ItemType{parser.SUB, parser.GTR, parser.EQLC}

// refSig: the match signature of the reference engine.
func refSig(l labels.Labels, m *parser.VectorMatching) string {
	s := ""
	for _, lb := range l {
		in := false
		for _, n := range m.MatchingLabels {
			if n == lb.Name {
				in = true
			}
		}
		if m.On {
			if in {
				s += lb.Name + "=" + lb.Value + ","
			}
		} else if !in && lb.Name != labels.MetricName {
			s += lb.Name + "=" + lb.Value + ","
		}
	}
	return s
}

type refOut struct {
	key string
	lbl labels.Labels
	v   float64
}

// refVectorBinop transcribes (*evaluator).VectorBinop of the pinned Prometheus for one
// step; failed reports the reference's many-to-many / duplicate-match errors.
func refVectorBinop(op parser.ItemType, cfg *verifVV, l, r stub.Step, returnBool bool, enh *promql.EvalNodeHelper) (out []refOut, failed bool) {
	m := &cfg.matching
	lser, rser := cfg.lhs, cfg.rhs
	if len(l.IDs) == 0 || len(r.IDs) == 0 {
		return nil, false
	}
	if m.Card == parser.CardOneToMany {
		l, r = r, l
		lser, rser = rser, lser
	}
	rightSigs := map[string]int{}
	for j, id := range r.IDs {
		sig := refSig(rser[id], m)
		if _, found := rightSigs[sig]; found {
			return nil, true
		}
		rightSigs[sig] = j
	}
	matched := map[string]map[string]bool{}
	for i, id := range l.IDs {
		sig := refSig(lser[id], m)
		j, found := rightSigs[sig]
		if !found {
			continue
		}
		vl, vr := l.Vs[i], r.Vs[j]
		if m.Card == parser.CardOneToMany {
			vl, vr = vr, vl
		}
		value, _, keep := promVectorElemBinop(op, vl, vr, nil, nil)
		if returnBool {
			value = sym.IteF(keep, 1, 0)
		} else if !keep {
			continue
		}
		metric := promResultMetric(lser[id], rser[r.IDs[j]], op, m, enh)
		if returnBool {
			metric = verifDropName(metric)
		}
		ins, exists := matched[sig]
		if m.Card == parser.CardOneToOne {
			if exists {
				return nil, true
			}
			matched[sig] = nil
		} else {
			k := verifKey(metric)
			if !exists {
				ins = map[string]bool{}
				matched[sig] = ins
			} else if ins[k] {
				return nil, true
			}
			ins[k] = true
		}
		out = append(out, refOut{key: verifKey(metric), lbl: metric, v: value})
	}
	return out, false
}

// VerifH05c: the vector-vector operator (join, match table, result labels, errors).
func VerifH05c() {
	ci := sym.Choice("cfg", len(verifVVCfgs))
	cfg := &verifVVCfgs[ci]
	op := verifVVOps[sym.Choice("op", len(verifVVOps))]
	returnBool := false
	if op == parser.EQLC {
		returnBool = true
	}
	t0 := sym.Int64("t0", -verifR, verifR)
	dt := sym.Int64("dt", 1, verifR)
	shape := []int{2, 1}
	// one focus step shared by both sides; for the filtering comparison the other
	// steps carry concrete values (lhs 10+k > rhs 1+k: kept) so that only the focus
	// step forks on keep/drop
	focus := sym.Choice("focus", 3)
	lbase, rbase := 10.0, 1.0
	if op == parser.GTR && sym.Choice("offFocusDropped", 2) == 1 {
		lbase, rbase = 1.0, 10.0 // off-focus pairs are filtered out instead of kept
	}
	ls := stub.SymStreamFocusAt("l", len(cfg.lhs), shape, t0, dt, focus, op == parser.GTR, lbase)
	rs := stub.SymStreamFocusAt("r", len(cfg.rhs), shape, t0, dt, focus, op == parser.GTR, rbase)
	lop := stub.NewOp(cfg.lhs, ls, 2)
	rop := stub.NewOp(cfg.rhs, rs, 2)
	m := cfg.matching
	m.MatchingLabels = append([]string(nil), cfg.matching.MatchingLabels...)
	o, err := NewVectorOperator(model.NewVectorPool(2), lop, rop, &m, op, returnBool)
	sym.Assert("C05/vv/new", err == nil)
	ctx, cancel := context.WithCancel(context.Background())
	defer cancel()
	enh := &promql.EvalNodeHelper{}
	var outSeries []labels.Labels
	for b := range shape {
		out, err := o.Next(ctx)
		// reference, step by step
		refFailed := false
		var refs [][]refOut
		for s := 0; s < shape[b]; s++ {
			ro, failed := refVectorBinop(op, cfg, ls[b][s], rs[b][s], returnBool, enh)
			if failed {
				refFailed = true
				break
			}
			refs = append(refs, ro)
		}
		if t0+int64(0)*dt == -1 || true {
			sym.Known("KF-C05-D10", sym.Or(ls[b][0].T == -1, ls[b][len(ls[b])-1].T == -1))
		}
		sym.Known("KF-C05-D29", ci == 1)
		sym.Assert("C05/vv/error-iff-reference-errors", (err != nil) == refFailed)
		if err != nil || refFailed {
			sym.Reached("C05/vv/error-end")
			return
		}
		sym.Assert("C18/vv/one-vector-per-step", len(out) == shape[b])
		if len(out) != shape[b] {
			sym.Stop()
		}
		if outSeries == nil {
			outSeries, err = o.Series(ctx)
			sym.Assert("C05/vv/series", err == nil)
		}
		for s := 0; s < shape[b]; s++ {
			sv := out[s]
			sym.Assert("C18/vv/T", sv.T == ls[b][s].T)
			sym.Assert("C18/vv/len", len(sv.SampleIDs) == len(sv.Samples))
			want := refs[s]
			d10 := ls[b][s].T == -1 // step time -1 collides with the table's "unset" tag
			sym.Known("KF-C05-D10", d10)
			sym.Assert("C05/vv/count", len(sv.SampleIDs) == len(want))
			seen := map[string]bool{}
			for j, id := range sv.SampleIDs {
				sym.Assert("C18/vv/id-range", int(id) < len(outSeries))
				if int(id) >= len(outSeries) {
					sym.Stop()
				}
				k := verifKey(outSeries[id])
				if ci == 5 {
					sym.Known("KF-C05-D9", true)
				}
				sym.Assert("C19/vv/wellformed", stub.WellFormed(outSeries[id]))
				sym.Assert("C05/vv/no-duplicate-series", !seen[k])
				seen[k] = true
				found := false
				for _, w := range want {
					if w.key == k {
						found = true
						sym.Known("KF-C05-D10", d10)
						sym.Assert("C05/vv/value:"+parser.ItemTypeStr[op], sym.EqF(sv.Samples[j], w.v))
					}
				}
				if returnBool {
					sym.Known("KF-C05-D8b", true)
				}
				sym.Known("KF-C05-D10", d10)
				if ci == 5 {
					sym.Known("KF-C05-D9", true)
				}
				sym.Assert("C05/vv/labels", found)
			}
		}
	}
	out, err := o.Next(ctx)
	sym.Assert("C18/vv/end", out == nil && err == nil)
	sym.Reached("C05/vv/end")
}
