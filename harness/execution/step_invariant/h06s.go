package step_invariant

import (
	"context"

	"github.com/prometheus/prometheus/model/labels"
	"github.com/prometheus/prometheus/promql/parser"

	"github.com/thanos-community/promql-engine/execution/model"
	"github.com/thanos-community/promql-engine/query"
	"github.com/thanos-community/promql-engine/zzverif/stub"
	"github.com/thanos-community/promql-engine/zzverif/sym"
)

const verifR = int64(1) << 41

// VerifH06s: a step-invariant (@-pinned) subexpression is evaluated once and the same
// vector is delivered at every step of the window.
func VerifH06s() {
	K := sym.IntRange("K", 1, sym.Tier(5, 7))
	start := sym.Int64("start", -verifR, verifR)
	step := sym.Int64("step", 1, verifR)
	extra := sym.Int64("extra", 0, verifR)
	sym.Assume(extra < step)
	end := start + int64(K-1)*step + extra
	opts := &query.Options{Start: sym.TimeMs(start), End: sym.TimeMs(end), Step: sym.DurMs(step), StepsBatch: 2}
	series := []labels.Labels{stub.Labels("__name__", "m", "a", "x"), stub.Labels("__name__", "m", "a", "y")}
	// the child is planned over [start, start]: exactly one step
	child := stub.SymStream("c", 2, []int{1}, start, 1)
	cop := stub.NewOp(series, child, 2)
	o, err := NewStepInvariantOperator(model.NewVectorPool(2), cop, &parser.VectorSelector{Name: "m"}, opts, 2)
	sym.Assert("C06/stepinv/new", err == nil)
	ctx := context.Background()
	in := child[0][0]
	i := 0
	for {
		out, err := o.Next(ctx)
		sym.Assert("C06/stepinv/next", err == nil)
		if out == nil {
			break
		}
		sym.Assert("C18/stepinv/batch-size", len(out) <= 2 && len(out) > 0)
		for _, sv := range out {
			sym.Assert("C07/stepinv/no-extra-step", i < K)
			sym.Assert("C07/stepinv/T-on-grid", sv.T == start+int64(i)*step)
			sym.Assert("C06/stepinv/same-vector", len(sv.Samples) == len(in.Vs) && len(sv.SampleIDs) == len(in.IDs))
			for j := range in.IDs {
				if j < len(sv.Samples) {
					sym.Assert("C06/stepinv/sample", sv.SampleIDs[j] == in.IDs[j] && sym.SameF(sv.Samples[j], in.Vs[j]))
				}
			}
			// consumers (function, unary, scalar-binary operators) rewrite the vectors they
			// receive in place: do the same, so that every later step must still carry the
			// pinned values (each step vector is the consumer's own copy)
			for j := range sv.Samples {
				sv.Samples[j] = -12345.5
			}
			for j := range sv.SampleIDs {
				sv.SampleIDs[j] = 99
			}
			i++
		}
	}
	if len(in.IDs) > 0 {
		sym.Assert("C07/stepinv/step-count", i == K)
	} else {
		sym.Assert("C07/stepinv/empty", i == 0)
	}
	sym.Assert("C06/stepinv/child-evaluated-once", cop.NextCalls <= 1)
	sym.Reached("C06/stepinv/end")
}
