package scan

import (
	"github.com/prometheus/prometheus/storage"

	"github.com/thanos-community/promql-engine/zzverif/stub"
	"github.com/thanos-community/promql-engine/zzverif/sym"
)

const verifR = int64(1) << 41

// VerifH02a: selectPoint over a memoized iterator, K non-decreasing evaluation times.
func VerifH02a() {
	n := sym.IntRange("n", 0, sym.Tier(3, 4))
	K := sym.Tier(3, 4)
	ser := stub.SymSeries("s", n, verifR)
	lb := sym.Int64("lookback", 0, verifR)
	off := sym.Int64("offset", -verifR, verifR)
	it := storage.NewMemoizedIterator(stub.NewListIter(ser), lb)
	ts := sym.Int64("t0", -verifR, verifR)
	for k := 0; k < K; k++ {
		t, v, ok, err := selectPoint(it, ts, lb, off)
		ref := ts - off
		// oracle: scan from the newest sample down
		wok := false
		var wt int64
		var wv float64
		found := false
		for i := n - 1; i >= 0; i-- {
			is := sym.And(!found, ser[i].T <= ref)
			hit := sym.And(is, ser[i].T >= ref-lb, !sym.IsStale(ser[i].V))
			wok = sym.Or(wok, hit)
			wt = sym.IteI(is, ser[i].T, wt)
			wv = sym.IteF(is, ser[i].V, wv)
			found = sym.Or(found, is)
		}
		sym.Assert("C02/selectPoint/err", err == nil)
		sym.Assert("C02/selectPoint/present", sym.Iff(ok, wok))
		sym.Assert("C02/selectPoint/value", sym.Implies(wok, sym.And(t == wt, sym.SameF(v, wv))))
		ts += sym.Int64("dt"+stub.Itoa(k), 0, verifR)
	}
	sym.Reached("C02/selectPoint/end")
}
