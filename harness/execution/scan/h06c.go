package scan

import (
	"context"

	"github.com/thanos-community/promql-engine/execution/model"
	"github.com/thanos-community/promql-engine/zzverif/sym"
)

// VerifH06c: the number literal selector delivers one value per grid step, for every
// step, across batch boundaries.
func VerifH06c() {
	start, _, step, K, opts, batch := verifGrid(sym.Tier(5, 7))
	val := sym.Float64("val")
	o := NewNumberLiteralSelector(model.NewVectorPool(batch), opts, val)
	ctx := context.Background()
	ser, err := o.Series(ctx)
	sym.Assert("C06/literal/series", err == nil && len(ser) == 1 && len(ser[0]) == 0)
	i := 0
	for {
		out, err := o.Next(ctx)
		sym.Assert("C06/literal/next", err == nil)
		if out == nil {
			break
		}
		sym.Assert("C18/literal/batch-size", len(out) <= batch && len(out) > 0)
		for _, sv := range out {
			sym.Assert("C07/literal/no-extra-step", i < K)
			sym.Assert("C07/literal/T-on-grid", sv.T == start+int64(i)*step)
			sym.Assert("C06/literal/one-value", len(sv.Samples) == 1 && len(sv.SampleIDs) == 1 && sv.SampleIDs[0] == 0 && sym.SameF(sv.Samples[0], val))
			i++
		}
	}
	sym.Assert("C07/literal/step-count", i == K)
	out, err := o.Next(ctx)
	sym.Assert("C18/literal/stays-ended", out == nil && err == nil)
	sym.Reached("C06/literal/end")
}
