package scan

import (
	"context"

	"github.com/prometheus/prometheus/model/labels"
	"github.com/prometheus/prometheus/promql"
	"github.com/prometheus/prometheus/promql/parser"

	"github.com/thanos-community/promql-engine/execution/function"
	"github.com/thanos-community/promql-engine/execution/model"
	"github.com/thanos-community/promql-engine/query"
	"github.com/thanos-community/promql-engine/zzverif/stub"
	"github.com/thanos-community/promql-engine/zzverif/stubsel"
	"github.com/thanos-community/promql-engine/zzverif/sym"
)

// verifGrid draws an evaluation window: K steps, start, step > 0 (or an instant query
// when K == 1 and instant is chosen), end anywhere in [last step, last step + step).
func verifGrid(maxK int) (start, end, step int64, K int, opts *query.Options, batch int) {
	K = sym.IntRange("K", 1, maxK)
	start = sym.Int64("start", -verifR, verifR)
	instant := K == 1 && sym.Choice("instant", 2) == 1
	if instant {
		step = 0
		end = start
	} else {
		step = sym.Int64("step", 1, verifR)
		extra := sym.Int64("extra", 0, verifR)
		sym.Assume(extra < step)
		end = start + int64(K-1)*step + extra
	}
	batch = 2
	opts = &query.Options{Start: sym.TimeMs(start), End: sym.TimeMs(end), Step: sym.DurMs(step), StepsBatch: int64(batch)}
	return
}

// VerifH02b: the vector selector operator: one vector per grid step, samples per the
// C02 window rule, batching, end of stream.
func VerifH02b() {
	start, _, step, K, opts, batch := verifGrid(sym.Tier(3, 4))
	lb := sym.Int64("lookback", 0, verifR)
	off := sym.Int64("offset", -verifR, verifR)
	opts.LookbackDelta = sym.DurMs(lb)
	n0 := sym.IntRange("n0", 0, 2)
	n1 := sym.IntRange("n1", 0, 1)
	ser := []*stub.Series{
		stub.NewSeries(stub.Labels("__name__", "m", "a", "x"), stub.SymSeries("s0", n0, verifR)),
		stub.NewSeries(stub.Labels("__name__", "m", "a", "y"), stub.SymSeries("s1", n1, verifR)),
	}
	sel := &stubsel.Selector{Ser: ser}
	o := NewVectorSelector(model.NewVectorPool(batch), sel, opts, sym.DurMs(off), 0, 1)
	ctx, cancel := context.WithCancel(context.Background())
	defer cancel()
	seriesFirst := sym.Choice("seriesFirst", 2) == 1
	if seriesFirst {
		ls, err := o.Series(ctx)
		sym.Assert("C02/op/series", err == nil && len(ls) == 2)
	}
	i := 0
	for {
		out, err := o.Next(ctx)
		sym.Assert("C02/op/next-err", err == nil)
		if out == nil {
			break
		}
		sym.Assert("C18/vsel/batch-size", len(out) <= batch && len(out) > 0)
		for _, sv := range out {
			sym.Assert("C07/vsel/no-extra-step", i < K)
			if i >= K {
				sym.Stop()
			}
			ts := start + int64(i)*step
			sym.Assert("C07/vsel/T-on-grid", sv.T == ts)
			sym.Assert("C18/vsel/len", len(sv.SampleIDs) == len(sv.Samples))
			ref := ts - off
			pos := 0
			for k, s := range ser {
				// oracle for series k
				wok := false
				var wv float64
				found := false
				for j := len(s.S) - 1; j >= 0; j-- {
					is := sym.And(!found, s.S[j].T <= ref)
					wok = sym.Or(wok, sym.And(is, s.S[j].T >= ref-lb, !sym.IsStale(s.S[j].V)))
					wv = sym.IteF(is, s.S[j].V, wv)
					found = sym.Or(found, is)
				}
				included := pos < len(sv.SampleIDs) && sv.SampleIDs[pos] == uint64(k)
				if included {
					sym.Assert("C02/op/present", wok)
					sym.Assert("C02/op/value", sym.SameF(sv.Samples[pos], wv))
					sym.Assert("C18/vsel/no-stale", !sym.IsStale(sv.Samples[pos]))
					pos++
				} else {
					sym.Assert("C02/op/absent", !wok)
				}
			}
			sym.Assert("C18/vsel/ids", pos == len(sv.SampleIDs))
			i++
		}
	}
	sym.Assert("C07/vsel/step-count", i == K)
	out, err := o.Next(ctx)
	sym.Assert("C18/vsel/stays-ended", out == nil && err == nil)
	ls, err := o.Series(ctx)
	sym.Assert("C18/vsel/series-stable", err == nil && len(ls) == 2 && stub.SameLabels(ls[0], ser[0].L) && stub.SameLabels(ls[1], ser[1].L))
	sym.Reached("C02/op/end")
}

// VerifH03a: the matrix selector operator: the window handed to the function at every
// step is exactly the non-stale samples with maxt-range <= t <= maxt, whatever earlier
// steps consumed.
func VerifH03a() {
	start, _, step, K, opts, batch := verifGrid(sym.Tier(3, 4))
	off := sym.Int64("offset", -verifR, verifR)
	rng := sym.Int64("range", 1, verifR)
	n := sym.IntRange("n", 0, sym.Tier(3, 4))
	samples := stub.SymSeries("s", n, verifR)
	ser := []*stub.Series{stub.NewSeries(stub.Labels("__name__", "m", "a", "x"), samples)}
	sel := &stubsel.Selector{Ser: ser}
	var windows [][]promql.Point
	var stepTimes []int64
	call := func(f function.FunctionArgs) promql.Sample {
		w := make([]promql.Point, len(f.Points))
		copy(w, f.Points)
		windows = append(windows, w)
		stepTimes = append(stepTimes, f.StepTime)
		sym.Assert("C03/window/args", f.SelectRange == rng && f.Offset == off)
		return promql.Sample{Point: promql.Point{T: f.StepTime, V: 1}}
	}
	fname := []string{"rate", "last_over_time"}[sym.Choice("fname", 2)]
	expr := &parser.Call{Func: parser.Functions[fname]}
	o := NewMatrixSelector(model.NewVectorPool(batch), sel, call, expr, opts, sym.DurMs(rng), sym.DurMs(off), 0, 1)
	ctx, cancel := context.WithCancel(context.Background())
	defer cancel()
	total := 0
	for {
		out, err := o.Next(ctx)
		sym.Assert("C03/op/next-err", err == nil)
		if out == nil {
			break
		}
		sym.Assert("C18/msel/batch-size", len(out) <= batch && len(out) > 0)
		for _, sv := range out {
			sym.Assert("C07/msel/no-extra-step", total < K)
			sym.Assert("C18/msel/one-sample", len(sv.Samples) == 1 && len(sv.SampleIDs) == 1)
			total++
		}
	}
	sym.Assert("C07/msel/step-count", total == K && len(windows) == K)
	if len(windows) != K {
		sym.Stop()
	}
	for i := 0; i < K; i++ {
		ts := start + int64(i)*step
		sym.Assert("C07/msel/T-on-grid", stepTimes[i] == ts)
		maxt := ts - off
		mint := maxt - rng
		w := windows[i]
		var cnt int64
		for _, s := range samples {
			in := sym.And(s.T >= mint, s.T <= maxt, !sym.IsStale(s.V))
			cnt += sym.IteI(in, 1, 0)
		}
		sym.Assert("C03/window/size", int64(len(w)) == cnt)
		for k, p := range w {
			match := false
			for _, s := range samples {
				match = sym.Or(match, sym.And(p.T == s.T, sym.SameF(p.V, s.V), s.T >= mint, s.T <= maxt, !sym.IsStale(s.V)))
			}
			sym.Assert("C03/window/member", match)
			if k > 0 {
				sym.Assert("C03/window/ordered", w[k-1].T < p.T)
			}
		}
	}
	ls, err := o.Series(ctx)
	want := stub.Labels("a", "x")
	if fname == "last_over_time" {
		want = stub.Labels("__name__", "m", "a", "x")
	}
	sym.Assert("C03/op/labels", err == nil && len(ls) == 1 && stub.SameLabels(ls[0], want))
	sym.Assert("C17/msel/storage-labels-untouched", stub.SameLabels(ser[0].L, stub.Labels("__name__", "m", "a", "x")))
	sym.Reached("C03/op/end")
}

var _ = labels.MetricName
