package stub

import (
	"context"
	"errors"

	"github.com/prometheus/prometheus/model/labels"

	"github.com/thanos-community/promql-engine/execution/model"
	"github.com/thanos-community/promql-engine/zzverif/sym"
)

// Step is one evaluation step of a stub stream: which series are present and with
// which value.
type Step struct {
	T   int64
	IDs []uint64
	Vs  []float64
}

// Op is a stub model.VectorOperator that emits a prepared stream satisfying the
// operator stream contract (C18): batches of at most batch-size steps, one vector per
// step in increasing T, unique IDs that index Series(). Vectors are taken from the
// operator's own pool, as real operators do, so that consumers' buffer returns are
// exercised.
type Op struct {
	Ser     []labels.Labels
	Batches [][]Step
	Pool    *model.VectorPool
	pos     int
	// fault injection
	SeriesErr error
	NextErrAt int // batch index at which Next fails (-1: never)
	NextErr   error
	// monitoring
	SeriesCalls int
	NextCalls   int
	inNext      bool
	Overlap     bool // two Next calls in flight at once
	Ended       int  // Next calls after the end of stream
}

func NewOp(ser []labels.Labels, batches [][]Step, batchSize int) *Op {
	p := model.NewVectorPool(batchSize)
	p.SetStepSize(len(ser))
	// label sets handed out by an operator may alias storage-owned memory: any store
	// into them by a consumer is a violation of C17 (executor write barrier)
	sym.ReadOnly("child-series-labels", ser)
	return &Op{Ser: ser, Batches: batches, Pool: p, NextErrAt: -1}
}

func (o *Op) Series(ctx context.Context) ([]labels.Labels, error) {
	o.SeriesCalls++
	if o.SeriesErr != nil {
		return nil, o.SeriesErr
	}
	return o.Ser, nil
}

func (o *Op) GetPool() *model.VectorPool { return o.Pool }

func (o *Op) Explain() (string, []model.VectorOperator) { return "[stub]", nil }

func (o *Op) Next(ctx context.Context) ([]model.StepVector, error) {
	if o.inNext {
		o.Overlap = true
	}
	o.inNext = true
	defer func() { o.inNext = false }()
	o.NextCalls++
	select {
	case <-ctx.Done():
		return nil, ctx.Err()
	default:
	}
	if o.NextErrAt >= 0 && o.pos >= o.NextErrAt {
		return nil, o.NextErr
	}
	if o.pos >= len(o.Batches) {
		o.Ended++
		return nil, nil
	}
	b := o.Batches[o.pos]
	o.pos++
	out := o.Pool.GetVectorBatch()
	for _, st := range b {
		sv := o.Pool.GetStepVector(st.T)
		sv.SampleIDs = append(sv.SampleIDs, st.IDs...)
		sv.Samples = append(sv.Samples, st.Vs...)
		out = append(out, sv)
	}
	return out, nil
}

// SymStream draws a stream for nSeries series: shape gives the number of steps in each
// batch; step i has time t0+i*dt; each series is present or absent at each step
// (fork) with an arbitrary non-stale value.
func SymStream(name string, nSeries int, shape []int, t0, dt int64) [][]Step {
	var out [][]Step
	i := 0
	allSubsets := sym.Tier(0, 1) == 1 || nSeries <= 2
	for b, n := range shape {
		var batch []Step
		for s := 0; s < n; s++ {
			st := Step{T: t0 + int64(i)*dt}
			// quick tier, more than two series: presence patterns none / all / exactly one
			pat := -1
			if !allSubsets {
				pat = sym.Choice(name+".b"+itoa(b)+"s"+itoa(s)+".pattern", nSeries+2)
			}
			for k := 0; k < nSeries; k++ {
				tag := name + ".b" + itoa(b) + "s" + itoa(s) + "k" + itoa(k)
				present := false
				if allSubsets {
					present = sym.Choice(tag+".present", 2) == 1
				} else {
					present = pat == 1 || pat == k+2
				}
				if present {
					st.IDs = append(st.IDs, uint64(k))
					st.Vs = append(st.Vs, sym.Float64(tag))
				}
			}
			batch = append(batch, st)
			i++
		}
		out = append(out, batch)
	}
	return out
}

// Labels builds a label set from name/value pairs (must be given sorted by name).
func Labels(kv ...string) labels.Labels {
	l := make(labels.Labels, 0, len(kv)/2)
	for i := 0; i+1 < len(kv); i += 2 {
		l = append(l, labels.Label{Name: kv[i], Value: kv[i+1]})
	}
	return l
}

// ErrInjected is the error a stub child returns when told to fail.
var ErrInjected = errors.New("injected operator failure")

// LabelsCap: like Labels, but the slice has spare capacity (as label sets built by
// appending have): an append by the engine would write into the owner's backing array.
func LabelsCap(extra int, kv ...string) labels.Labels {
	l := make(labels.Labels, 0, len(kv)/2+extra)
	for i := 0; i+1 < len(kv); i += 2 {
		l = append(l, labels.Label{Name: kv[i], Value: kv[i+1]})
	}
	return l
}

// SameLabels compares two label sets element-wise.
func SameLabels(a, b labels.Labels) bool {
	if len(a) != len(b) {
		return false
	}
	for i := range a {
		if a[i].Name != b[i].Name || a[i].Value != b[i].Value {
			return false
		}
	}
	return true
}

// WellFormed: sorted by name, no duplicate names, no empty values.
func WellFormed(l labels.Labels) bool {
	for i := range l {
		if l[i].Value == "" || l[i].Name == "" {
			return false
		}
		if i > 0 && !(l[i-1].Name < l[i].Name) {
			return false
		}
	}
	return true
}

// SymStreamFocus is a cheaper stream space: one focus step (fork over all steps) has an
// arbitrary presence pattern (fork over all subsets), every other step has all series
// present. Values are symbolic everywhere.
func SymStreamFocus(name string, nSeries int, shape []int, t0, dt int64) [][]Step {
	total := 0
	for _, n := range shape {
		total += n
	}
	return SymStreamFocusAt(name, nSeries, shape, t0, dt, sym.Choice(name+".focus", total), false, 0)
}

// SymStreamFocusAt: as SymStreamFocus with a given focus step; if concreteOff is set,
// values outside the focus step are the concrete numbers base+k (k = series index).
func SymStreamFocusAt(name string, nSeries int, shape []int, t0, dt int64, focus int, concreteOff bool, base float64) [][]Step {
	var out [][]Step
	i := 0
	for b, n := range shape {
		var batch []Step
		for s := 0; s < n; s++ {
			st := Step{T: t0 + int64(i)*dt}
			for k := 0; k < nSeries; k++ {
				tag := name + ".b" + itoa(b) + "s" + itoa(s) + "k" + itoa(k)
				present := true
				if i == focus {
					present = sym.Choice(tag+".present", 2) == 1
				}
				if present {
					st.IDs = append(st.IDs, uint64(k))
					if concreteOff && i != focus {
						st.Vs = append(st.Vs, base+float64(k))
					} else {
						st.Vs = append(st.Vs, sym.Float64(tag))
					}
				}
			}
			batch = append(batch, st)
			i++
		}
		out = append(out, batch)
	}
	return out
}
