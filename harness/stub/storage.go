package stub

import (
	"context"

	"github.com/prometheus/prometheus/model/labels"
	"github.com/prometheus/prometheus/storage"
	"github.com/prometheus/prometheus/tsdb/chunkenc"

	"github.com/thanos-community/promql-engine/zzverif/sym"
)

// Series is a stored series with explicit samples.
type Series struct {
	L       labels.Labels
	S       []Sample
	FailAt  int // iterator fails when advancing onto this index (-1: never)
	FailErr error
	Panic   bool
	Iters   []*ListIter
	OnLand  func(idx int) // handed to every iterator of this series
}

func NewSeries(l labels.Labels, s []Sample) *Series {
	sym.ReadOnly("storage-labels", l)
	return &Series{L: l, S: s, FailAt: -1}
}

func (s *Series) Labels() labels.Labels { return s.L }
func (s *Series) Iterator() chunkenc.Iterator {
	sym.Yield() // storage callbacks are scheduling points (real storages do I/O here)
	it := NewListIter(s.S)
	it.FailAt, it.FailErr, it.Panic = s.FailAt, s.FailErr, s.Panic
	it.OnLand = s.OnLand
	sym.Lock()
	s.Iters = append(s.Iters, it)
	sym.Unlock()
	return it
}

// ---- Queryable with fault injection and bookkeeping

type SelectCall struct {
	Mint, Maxt int64
	Hints      storage.SelectHints
	Matchers   []*labels.Matcher
}

type Queryable struct {
	Ser []*Series
	// faults: each callback asks sym.Fault(kind); FaultMode selects what a fault does
	FaultMode int // 0 = none, 1 = return error, 2 = panic(error value), 3 = panic(string), 4 = panic(runtime error)
	FaultErr  error
	Opened    int
	Closed    int
	Selects   []SelectCall
	Open      map[*querier]bool
	// OnCallback, if set, is invoked at every storage callback with the site name
	// (used to cancel the query context at the k-th callback).
	OnCallback func(site string)
	// LastCtx is the context of the most recent Querier call (a storage that blocks until
	// its context is cancelled waits on it).
	LastCtx context.Context
	// HonourHints: Select returns only the samples inside [hints.Start, hints.End], as a
	// storage is allowed to (C16: the hinted range must be sufficient).
	HonourHints bool
}

func (q *Queryable) fault(site string) bool {
	if q.OnCallback != nil {
		q.OnCallback(site)
	}
	if q.FaultMode == 0 {
		return false
	}
	if !sym.Fault(site) {
		return false
	}
	switch q.FaultMode {
	case 2:
		panic(q.FaultErr)
	case 3:
		panic("storage callback panicked: " + site)
	case 4:
		var m map[string]int
		m["x"] = 1 // runtime error
	}
	return true
}

func (q *Queryable) Querier(ctx context.Context, mint, maxt int64) (storage.Querier, error) {
	sym.Lock()
	q.LastCtx = ctx
	sym.Unlock()
	if q.fault("Querier") {
		return nil, q.FaultErr
	}
	sym.Lock()
	q.Opened++
	qr := &querier{q: q, mint: mint, maxt: maxt}
	if q.Open == nil {
		q.Open = map[*querier]bool{}
	}
	q.Open[qr] = true
	sym.Unlock()
	return qr, nil
}

type querier struct {
	q          *Queryable
	mint, maxt int64
	closed     int
}

func (qr *querier) LabelValues(name string, matchers ...*labels.Matcher) ([]string, storage.Warnings, error) {
	return nil, nil, nil
}
func (qr *querier) LabelNames(matchers ...*labels.Matcher) ([]string, storage.Warnings, error) {
	return nil, nil, nil
}
func (qr *querier) Close() error {
	sym.Lock()
	qr.closed++
	qr.q.Closed++
	delete(qr.q.Open, qr)
	sym.Unlock()
	return nil
}

// DoubleClosed reports whether some querier was closed more than once.
func (q *Queryable) AllClosedOnce() bool { return q.Opened == q.Closed && len(q.Open) == 0 }

func (qr *querier) Select(sortSeries bool, hints *storage.SelectHints, matchers ...*labels.Matcher) storage.SeriesSet {
	c := SelectCall{Mint: qr.mint, Maxt: qr.maxt, Matchers: matchers}
	if hints != nil {
		c.Hints = *hints
	}
	sym.Lock()
	qr.q.Selects = append(qr.q.Selects, c)
	sym.Unlock()
	ss := &seriesSet{q: qr.q, pos: -1}
	if qr.q.fault("Select") {
		ss.err = qr.q.FaultErr
		return ss
	}
	for _, s := range qr.q.Ser {
		ok := true
		for _, m := range matchers {
			if !m.Matches(s.L.Get(m.Name)) {
				ok = false
			}
		}
		if ok {
			if qr.q.HonourHints && hints != nil {
				var kept []Sample
				for _, smp := range s.S {
					if smp.T >= hints.Start && smp.T <= hints.End {
						kept = append(kept, smp)
					}
				}
				ss.ser = append(ss.ser, &Series{L: s.L, S: kept, FailAt: -1})
			} else {
				ss.ser = append(ss.ser, s)
			}
		}
	}
	return ss
}

type seriesSet struct {
	q   *Queryable
	ser []*Series
	pos int
	err error
}

func (s *seriesSet) Next() bool {
	if s.err != nil {
		return false
	}
	if s.q.fault("SeriesSet.Next") {
		s.err = s.q.FaultErr
		return false
	}
	s.pos++
	return s.pos < len(s.ser)
}
func (s *seriesSet) At() storage.Series {
	if s.q.FaultMode == 0 && s.q.OnCallback == nil {
		return s.ser[s.pos]
	}
	return &faultSeries{Series: s.ser[s.pos], q: s.q}
}

// faultSeries adds fault sites to Labels() and Iterator().
type faultSeries struct {
	*Series
	q *Queryable
}

func (f *faultSeries) Labels() labels.Labels {
	if f.q.FaultMode >= 2 || f.q.FaultMode == 0 { // these callbacks cannot return an error, only panic (or observe)
		f.q.fault("Series.Labels")
	}
	return f.Series.Labels()
}

func (f *faultSeries) Iterator() chunkenc.Iterator {
	if f.q.FaultMode >= 2 || f.q.FaultMode == 0 {
		f.q.fault("Series.Iterator")
	}
	return f.Series.Iterator()
}
func (s *seriesSet) Err() error                 { return s.err }
func (s *seriesSet) Warnings() storage.Warnings { return nil }
