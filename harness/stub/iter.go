// Package stub holds the environment stubs shared by the harnesses (DESIGN Appendix B).
package stub

import (
	"github.com/prometheus/prometheus/model/histogram"
	"github.com/prometheus/prometheus/tsdb/chunkenc"

	"github.com/thanos-community/promql-engine/zzverif/sym"
)

// Sample is one stored sample.
type Sample struct {
	T int64
	V float64
}

// ListIter is a chunkenc.Iterator over explicit samples with strictly increasing
// timestamps. Contract: Next advances by one; Seek(t) positions on the first sample
// with timestamp >= t that is not before the current one and never moves backwards;
// once exhausted it stays exhausted; Err returns FailErr after the iterator failed.
type ListIter struct {
	S   []Sample
	pos int // index of current sample; -1 before first Next/Seek
	// FailAt: if >= 0, advancing onto index FailAt fails instead: the iterator
	// returns ValNone and Err() reports FailErr from then on.
	FailAt  int
	FailErr error
	failed  bool
	// Calls counts Next+Seek invocations (for callback-indexed fault injection).
	Calls int
	// Panic: instead of failing with FailErr the iterator panics with it.
	Panic bool
	// Fired: the injected failure / panic actually happened.
	Fired bool
	// OnLand, if set, is called with the index the iterator has just been positioned on
	// (a storage that does work - or lets other work happen - while it is being read).
	OnLand func(idx int)
}

func NewListIter(s []Sample) *ListIter { return &ListIter{S: s, pos: -1, FailAt: -1} }

func (it *ListIter) land() chunkenc.ValueType {
	if it.OnLand != nil {
		it.OnLand(it.pos)
	}
	if it.failed {
		return chunkenc.ValNone
	}
	if it.FailAt >= 0 && it.pos >= it.FailAt {
		it.Fired = true
		if it.Panic {
			panic(it.FailErr)
		}
		it.failed = true
		it.pos = len(it.S)
		return chunkenc.ValNone
	}
	if it.pos >= len(it.S) {
		it.pos = len(it.S)
		return chunkenc.ValNone
	}
	return chunkenc.ValFloat
}

func (it *ListIter) Next() chunkenc.ValueType {
	it.Calls++
	if it.pos < len(it.S) {
		it.pos++
	}
	return it.land()
}

func (it *ListIter) Seek(t int64) chunkenc.ValueType {
	it.Calls++
	if it.pos < 0 {
		it.pos = 0
	}
	for it.pos < len(it.S) && !(it.FailAt >= 0 && it.pos >= it.FailAt) && it.S[it.pos].T < t {
		it.pos++
	}
	return it.land()
}

func (it *ListIter) At() (int64, float64) { return it.S[it.pos].T, it.S[it.pos].V }
func (it *ListIter) AtT() int64           { return it.S[it.pos].T }
func (it *ListIter) AtHistogram() (int64, *histogram.Histogram) {
	return 0, nil
}
func (it *ListIter) AtFloatHistogram() (int64, *histogram.FloatHistogram) {
	return 0, nil
}
func (it *ListIter) Err() error {
	if it.failed {
		return it.FailErr
	}
	return nil
}

// SymSeries draws n samples with strictly increasing timestamps in [-R, R] and
// arbitrary values (incl. NaN, ±Inf and the staleness marker).
func SymSeries(name string, n int, R int64) []Sample {
	s := make([]Sample, n)
	for i := 0; i < n; i++ {
		s[i].T = sym.Int64(name+".t"+itoa(i), -R, R)
		s[i].V = sym.Sample(name + ".v" + itoa(i))
		if i > 0 {
			sym.Assume(s[i-1].T < s[i].T)
		}
	}
	return s
}

func itoa(i int) string {
	if i == 0 {
		return "0"
	}
	neg := i < 0
	if neg {
		i = -i
	}
	var b []byte
	for i > 0 {
		b = append([]byte{byte('0' + i%10)}, b...)
		i /= 10
	}
	if neg {
		b = append([]byte{'-'}, b...)
	}
	return string(b)
}

// Itoa is exported for harnesses (avoids fmt in interpreted code).
func Itoa(i int) string { return itoa(i) }
