// Package sym is the harness-facing API of the gosym symbolic executor.
//
// Under gosym every function here is intercepted (see /verif/gosym/interp/extsym.go).
// This file is the NATIVE twin: it is what the Go compiler sees when a counterexample
// is replayed against the real build (go test -overlay). Inputs are read by name from
// the JSON file named by $VERIF_REPLAY.
package sym

import (
	"encoding/json"
	"fmt"
	"math"
	"os"
	"runtime"
	"strconv"
	"sync"
	"time"
)

type replay struct {
	Inputs  map[string]string `json:"inputs"`
	Choices map[string]int    `json:"choices"`
	Tier    string            `json:"tier"`
	Params  map[string]int    `json:"params"`
}

var (
	mu         sync.Mutex
	rp         replay
	loaded     bool
	Failures   []string
	faultCount int
	counters   = map[string]int{}
)

const staleNaN uint64 = 0x7ff0000000000002

func load() {
	if loaded {
		return
	}
	loaded = true
	if p := os.Getenv("VERIF_REPLAY"); p != "" {
		b, err := os.ReadFile(p)
		if err != nil {
			panic(err)
		}
		if err := json.Unmarshal(b, &rp); err != nil {
			panic(err)
		}
	}
}

// Reset clears recorded failures (used by replay tests).
func Reset() { mu.Lock(); Failures = nil; faultCount = 0; counters = map[string]int{}; mu.Unlock() }

func input(name string) (string, bool) {
	mu.Lock()
	defer mu.Unlock()
	load()
	v, ok := rp.Inputs[name]
	return v, ok
}

func Int64(name string, lo, hi int64) int64 {
	if s, ok := input(name); ok {
		v, _ := strconv.ParseInt(s, 10, 64)
		return v
	}
	return lo
}

func Int(name string, lo, hi int) int { return int(Int64(name, int64(lo), int64(hi))) }

func Bool(name string) bool {
	s, _ := input(name)
	return s == "true"
}

func floatInput(name string) float64 {
	if s, ok := input(name); ok {
		b, _ := strconv.ParseUint(s, 0, 64)
		return math.Float64frombits(b)
	}
	return 0
}

// Float64 is an arbitrary double (any NaN is an ordinary NaN).
func Float64(name string) float64 { return floatInput(name) }

// Finite is an arbitrary finite double.
func Finite(name string) float64 { return floatInput(name) }

// Sample is an arbitrary double or the staleness marker.
func Sample(name string) float64 {
	if s, _ := input(name + "!stale"); s == "true" {
		return math.Float64frombits(staleNaN)
	}
	return floatInput(name)
}

func choice(name string) int {
	mu.Lock()
	defer mu.Unlock()
	load()
	return rp.Choices[name]
}

// IntRange forks into the concrete values lo..hi.
func IntRange(name string, lo, hi int) int {
	mu.Lock()
	load()
	v, ok := rp.Choices[name]
	mu.Unlock()
	if ok {
		return v
	}
	return lo
}

// Choice forks into 0..n-1.
func Choice(name string, n int) int { return choice(name) }

// Fault is a fault-injection choice (at most MaxFaults per path).
func Fault(site string) bool {
	mu.Lock()
	load()
	name := fmt.Sprintf("fault#%d:%s", faultCount, site)
	faultCount++
	v := rp.Choices[name]
	if v == 1 {
		counters["faults-fired"]++
	}
	mu.Unlock()
	return v == 1
}

func Assume(c bool) {
	if !c {
		panic("sym.Assume violated natively: replay inputs do not satisfy the harness assumptions")
	}
}

func Assert(site string, c bool) {
	if !c {
		mu.Lock()
		Failures = append(Failures, site)
		mu.Unlock()
	}
}

func Known(id string, region bool)         {}
func KnownEvent(id string, pattern string) {}
func Reached(site string)                  {}
func Stop()                                {}
func Observe(name string, v any)           {}
func Log(format string, args ...any)       {}
func CheckLeaks()                          {}
func Domain(n int)                         {}

// RealReference: under gosym, interpret the real reference engine instead of the counting model.
func RealReference() {}

func Yield() { runtime.Gosched() }

var stubMu sync.Mutex

// Lock/Unlock protect the bookkeeping of the stub environment in NATIVE runs (the engine
// calls the storage from several goroutines). Under gosym they are no-ops: goroutines are
// coroutines there, and a modelled mutex would add scheduling points to every storage call.
func Lock()   { stubMu.Lock() }
func Unlock() { stubMu.Unlock() }

// LetOthersRun: under gosym the calling goroutine is parked until every other goroutine has
// blocked or finished; natively it sleeps a little.
func LetOthersRun() {
	for i := 0; i < 50; i++ {
		runtime.Gosched()
	}
	time.Sleep(5 * time.Millisecond)
}
func PoolNondet()                 {}
func SetGOMAXPROCS(n int)         { runtime.GOMAXPROCS(n) }
func ReadOnly(name string, p any) {}

// Counter reads an executor-maintained counter; natively only "faults-fired" is kept.
func Counter(name string) int {
	mu.Lock()
	defer mu.Unlock()
	return counters[name]
}
func Symbolic() bool { return false }

func Tier(quick, thorough int) int {
	mu.Lock()
	defer mu.Unlock()
	load()
	if rp.Tier == "thorough" {
		return thorough
	}
	return quick
}

func Param(name string, def int) int {
	mu.Lock()
	defer mu.Unlock()
	load()
	if v, ok := rp.Params[name]; ok {
		return v
	}
	return def
}

// SameF: identical doubles for PromQL purposes — both the staleness marker, both an
// ordinary NaN, or bitwise-equal non-NaN values (so +0 and -0 differ).
func SameF(a, b float64) bool {
	sa, sb := math.Float64bits(a) == staleNaN, math.Float64bits(b) == staleNaN
	if sa || sb {
		return sa == sb
	}
	if a != a || b != b {
		return a != a && b != b
	}
	return math.Float64bits(a) == math.Float64bits(b)
}

// EqR: equal up to rounding. Under gosym's exact-real interpretation this is equality
// over the reals; natively a relative tolerance of 1e-9 is used.
func EqR(a, b float64) bool {
	if a == b || (a != a && b != b) {
		return true
	}
	d := math.Abs(a - b)
	m := math.Max(1, math.Max(math.Abs(a), math.Abs(b)))
	return d <= 1e-9*m
}

// EqF: both NaN, or IEEE-equal.
func EqF(a, b float64) bool { return (a != a && b != b) || a == b }

func IsStale(a float64) bool { return math.Float64bits(a) == staleNaN }

func And(cs ...bool) bool {
	for _, c := range cs {
		if !c {
			return false
		}
	}
	return true
}

func Or(cs ...bool) bool {
	for _, c := range cs {
		if c {
			return true
		}
	}
	return false
}

func Not(a bool) bool        { return !a }
func Implies(a, b bool) bool { return !a || b }
func Iff(a, b bool) bool     { return a == b }

func IteF(c bool, a, b float64) float64 {
	if c {
		return a
	}
	return b
}

func IteI(c bool, a, b int64) int64 {
	if c {
		return a
	}
	return b
}

func TimeMs(ms int64) time.Time    { return time.UnixMilli(ms) }
func DurMs(ms int64) time.Duration { return time.Duration(ms) * time.Millisecond }
