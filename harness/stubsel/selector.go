// Package stubsel: stub series selector (separate from stub to avoid an import cycle
// with execution/storage harnesses).
package stubsel

import (
	"context"

	"github.com/prometheus/prometheus/model/labels"

	engstore "github.com/thanos-community/promql-engine/execution/storage"
	"github.com/thanos-community/promql-engine/zzverif/stub"
)

// Selector is a stub engstore.SeriesSelector returning a fixed list of series.
type Selector struct {
	Ser   []*stub.Series
	Err   error
	Calls int
}

func (s *Selector) Matchers() []*labels.Matcher { return nil }
func (s *Selector) GetSeries(ctx context.Context, shard, numShards int) ([]engstore.SignedSeries, error) {
	s.Calls++
	if s.Err != nil {
		return nil, s.Err
	}
	start := shard * len(s.Ser) / numShards
	end := (shard + 1) * len(s.Ser) / numShards
	var out []engstore.SignedSeries
	for i := start; i < end; i++ {
		out = append(out, engstore.SignedSeries{Series: s.Ser[i], Signature: uint64(i - start)})
	}
	return out, nil
}
