package smt

import (
	"bufio"
	"fmt"
	"io"
	"math"
	"math/big"
	"os"
	"os/exec"
	"path/filepath"
	"runtime"
	"strings"
	"sync"
	"sync/atomic"
	"time"
)

type Result int

const (
	Unsat Result = iota
	Sat
	Unknown
)

func (r Result) String() string { return [...]string{"unsat", "sat", "unknown"}[r] }

// Stats are accumulated per solver session (and merged by the caller).
type Stats struct {
	Queries  int
	Sat      int
	Unsat    int
	Unknown  int
	Errors   int
	TimeS    float64
	MaxS     float64
	Fallback int // queries that needed the portfolio
}

func (s *Stats) Merge(o Stats) {
	s.Queries += o.Queries
	s.Sat += o.Sat
	s.Unsat += o.Unsat
	s.Unknown += o.Unknown
	s.Errors += o.Errors
	s.TimeS += o.TimeS
	if o.MaxS > s.MaxS {
		s.MaxS = o.MaxS
	}
	s.Fallback += o.Fallback
}

// Session is one persistent incremental solver process.
type Session struct {
	cmd     *exec.Cmd
	in      io.WriteCloser
	out     *bufio.Reader
	name    string
	defined []map[int]bool // per push level: term ids defined / decl names declared
	decls   []map[string]bool
	asserts [][]*Term // per level, for portfolio scripts
	Stats   Stats
	Log     io.Writer
	timeout int // ms
	dead    bool
	seq     int
	cvc5    bool
	resets  int
}

var SolverPath = "z3-new"

// RestartEvery: the solver process is replaced after this many paths.
var RestartEvery = 100

func NewSession(timeoutMs int) (*Session, error) {
	s := &Session{name: SolverPath, timeout: timeoutMs}
	s.cvc5 = strings.Contains(SolverPath, "cvc5")
	if err := s.start(); err != nil {
		return nil, err
	}
	return s, nil
}

func (s *Session) start() error {
	if s.cvc5 {
		s.cmd = exec.Command(s.name, "--incremental", "--produce-models", "--lang=smt2", fmt.Sprintf("--tlimit-per=%d", CVC5LimitMs))
	} else {
		s.cmd = exec.Command(s.name, "-in")
	}
	in, err := s.cmd.StdinPipe()
	if err != nil {
		return err
	}
	out, err := s.cmd.StdoutPipe()
	if err != nil {
		return err
	}
	s.cmd.Stderr = os.Stderr
	if err := s.cmd.Start(); err != nil {
		return err
	}
	s.in = in
	s.out = bufio.NewReaderSize(out, 1<<16)
	s.dead = false
	s.resetState()
	s.prelude()
	return nil
}

// CVC5LimitMs is the per-query limit of cvc5 sessions (fixed at process start).
var CVC5LimitMs = 30000

func (s *Session) prelude() {
	if s.cvc5 {
		s.send("(set-logic ALL)")
		return
	}
	s.send("(set-option :print-success false)")
	s.send(fmt.Sprintf("(set-option :timeout %d)", s.timeout))
}

func (s *Session) resetState() {
	s.defined = []map[int]bool{{}}
	s.decls = []map[string]bool{{}}
	s.asserts = [][]*Term{nil}
}

func (s *Session) Close() {
	if s.cmd != nil && s.cmd.Process != nil {
		s.in.Close()
		s.cmd.Process.Kill()
		s.cmd.Wait()
	}
}

func (s *Session) send(line string) {
	if s.Log != nil {
		fmt.Fprintln(s.Log, line)
	}
	io.WriteString(s.in, line)
	io.WriteString(s.in, "\n")
}

// Reset clears all assertions (start of a new path).
func (s *Session) Reset() {
	s.resets++
	if s.resets%RestartEvery == 0 {
		// solvers accumulate state across (reset); start a fresh process
		s.dead = true
	}
	if s.dead {
		s.Close()
		if err := s.start(); err != nil {
			panic(err)
		}
		return
	}
	s.send("(reset)")
	s.resetState()
	s.prelude()
}

func (s *Session) SetTimeout(ms int) {
	s.timeout = ms
	if !s.cvc5 {
		s.send(fmt.Sprintf("(set-option :timeout %d)", ms))
	}
}

func (s *Session) Push() {
	s.send("(push 1)")
	s.defined = append(s.defined, map[int]bool{})
	s.decls = append(s.decls, map[string]bool{})
	s.asserts = append(s.asserts, nil)
}

func (s *Session) Pop() {
	s.send("(pop 1)")
	s.defined = s.defined[:len(s.defined)-1]
	s.decls = s.decls[:len(s.decls)-1]
	s.asserts = s.asserts[:len(s.asserts)-1]
}

func (s *Session) isDefined(id int) bool {
	for _, m := range s.defined {
		if m[id] {
			return true
		}
	}
	return false
}
func (s *Session) isDeclared(n string) bool {
	for _, m := range s.decls {
		if m[n] {
			return true
		}
	}
	return false
}

func tname(t *Term) string { return fmt.Sprintf("t!%d", t.id) }

// ref returns the textual reference to t, emitting definitions for shared
// non-leaf subterms first.
func (s *Session) ref(t *Term) string {
	switch t.Op {
	case "true", "false", "int", "fp", "real":
		return leafString(t)
	case "var":
		if !s.isDeclared(t.Name) {
			s.decls[len(s.decls)-1][t.Name] = true
			s.send(Decl{Name: t.Name, Ret: t.Sort}.String())
		}
		return quote(t.Name)
	}
	if s.isDefined(t.id) {
		return tname(t)
	}
	body := s.body(t)
	s.defined[len(s.defined)-1][t.id] = true
	s.send(fmt.Sprintf("(define-fun %s () %s %s)", tname(t), t.Sort, body))
	return tname(t)
}

func leafString(t *Term) string {
	p := Printer{memo: map[int]string{}}
	return p.Print(t)
}

func (s *Session) body(t *Term) string {
	args := make([]string, len(t.Args))
	for i, a := range t.Args {
		args[i] = s.ref(a)
	}
	j := strings.Join(args, " ")
	switch t.Op {
	case "uf":
		key := t.Name + "/" + fmt.Sprint(len(t.Args))
		if !s.isDeclared(key) {
			s.decls[len(s.decls)-1][key] = true
			d := Decl{Name: t.Name, Ret: t.Sort}
			for _, a := range t.Args {
				d.Args = append(d.Args, a.Sort)
			}
			s.send(d.String())
		}
		if len(args) == 0 {
			return quote(t.Name)
		}
		return "(" + quote(t.Name) + " " + j + ")"
	case "fp.add", "fp.sub", "fp.mul", "fp.div", "fp.sqrt":
		return "(" + t.Op + " RNE " + j + ")"
	case "fp.roundToIntegral":
		return "(fp.roundToIntegral " + t.Name + " " + j + ")"
	case "i2f":
		return "((_ to_fp 11 53) RNE (to_real " + j + "))"
	case "f2i":
		a := j
		return "(ite (or (fp.isNaN " + a + ") (fp.isInfinite " + a + ") (fp.geq " + a + " ((_ to_fp 11 53) RNE 9223372036854775808.0)) (fp.lt " + a + " ((_ to_fp 11 53) RNE (- 9223372036854775808.0)))) (- 9223372036854775808) (to_int (fp.to_real (fp.roundToIntegral RTZ " + a + "))))"
	}
	return "(" + t.Op + " " + j + ")"
}

func (s *Session) Assert(t *Term) {
	if t == True {
		return
	}
	r := s.ref(t)
	s.send("(assert " + r + ")")
	s.asserts[len(s.asserts)-1] = append(s.asserts[len(s.asserts)-1], t)
}

func (s *Session) readLine() (string, error) {
	type res struct {
		s   string
		err error
	}
	ch := make(chan res, 1)
	go func() {
		l, err := s.out.ReadString('\n')
		ch <- res{l, err}
	}()
	select {
	case r := <-ch:
		return strings.TrimSpace(r.s), r.err
	case <-time.After(time.Duration(max(s.timeout, CVC5LimitMs))*time.Millisecond + 20*time.Second):
		s.dead = true
		s.cmd.Process.Kill()
		return "", fmt.Errorf("solver hung")
	}
}

// roundTrip sends a command followed by an echo marker and returns all reply lines
// that precede the marker (robust against solvers that print an error line and a
// verdict for one command).
func (s *Session) roundTrip(cmd string) ([]string, error) {
	s.seq++
	marker := fmt.Sprintf("<<%d>>", s.seq)
	s.send(cmd)
	s.send("(echo \"" + marker + "\")")
	var lines []string
	for {
		l, err := s.readLine()
		if err != nil {
			return lines, err
		}
		if strings.Trim(l, "\"") == marker {
			return lines, nil
		}
		if l != "" {
			lines = append(lines, l)
		}
	}
}

// Check runs check-sat on the current assertion stack.
func (s *Session) Check() Result {
	t0 := time.Now()
	lines, err := s.roundTrip("(check-sat)")
	d := time.Since(t0).Seconds()
	s.Stats.Queries++
	s.Stats.TimeS += d
	if d > s.Stats.MaxS {
		s.Stats.MaxS = d
	}
	if SlowLog != "" && d > 2 {
		dumpSlow(s, d)
	}
	if QLog {
		_, file, line, _ := runtime.Caller(1)
		_, file2, line2, _ := runtime.Caller(2)
		fmt.Fprintf(os.Stderr, "Q %.2fs %v %s:%d < %s:%d\n", d, lines, filepath.Base(file), line, filepath.Base(file2), line2)
	}
	r := Unknown
	verdicts := 0
	hasErr := err != nil
	for _, line := range lines {
		switch {
		case line == "sat":
			r = Sat
			verdicts++
		case line == "unsat":
			r = Unsat
			verdicts++
		case line == "unknown" || line == "timeout":
			verdicts++
		case strings.Contains(line, "canceled") || strings.Contains(line, "timeout"):
			// resource limit: inconclusive
		default:
			fmt.Fprintf(os.Stderr, "solver: unexpected reply %q\n", line)
			hasErr = true
		}
	}
	if err != nil {
		s.dead = true
	}
	if hasErr || verdicts != 1 {
		// any (error line or protocol irregularity makes the query inconclusive
		if hasErr {
			s.Stats.Errors++
		}
		if verdicts != 1 || hasErr {
			r = Unknown
		}
	}
	switch r {
	case Sat:
		s.Stats.Sat++
	case Unsat:
		s.Stats.Unsat++
	default:
		s.Stats.Unknown++
	}
	return r
}

// SlowLog, when set, is a directory receiving scripts of queries slower than 2 s.
var SlowLog = ""

// QLog prints one line per query (debugging).
var QLog = os.Getenv("GOSYM_QLOG") != ""

var slowN int32

func dumpSlow(s *Session, d float64) {
	n := atomic.AddInt32(&slowN, 1)
	if n > 200 {
		return
	}
	os.MkdirAll(SlowLog, 0o755)
	os.WriteFile(fmt.Sprintf("%s/q%03d_%.0fs.smt2", SlowLog, n, d), []byte(Script(s.AllAsserts(), 0, false)), 0o644)
}

// CheckWith: push; assert extra; check; pop.
func (s *Session) CheckWith(extra ...*Term) Result {
	s.Push()
	for _, e := range extra {
		s.Assert(e)
	}
	r := s.Check()
	s.Pop()
	return r
}

// AllAsserts returns everything currently asserted.
func (s *Session) AllAsserts() []*Term {
	var out []*Term
	for _, l := range s.asserts {
		out = append(out, l...)
	}
	return out
}

// Value is a model value.
type Value struct {
	Sort Sort
	I    *big.Int
	F    float64
	B    bool
	Raw  string
}

// GetValues must be called right after a Sat Check on the same stack (before pop).
func (s *Session) GetValues(vars []*Term) (map[string]Value, error) {
	out := map[string]Value{}
	if len(vars) == 0 {
		return out, nil
	}
	var names []string
	for _, v := range vars {
		names = append(names, s.ref(v))
	}
	lines, err := s.roundTrip("(get-value (" + strings.Join(names, " ") + "))")
	if err != nil {
		return nil, err
	}
	txt := strings.Join(lines, " ")
	if strings.Contains(txt, "(error") {
		return nil, fmt.Errorf("get-value: %s", txt)
	}
	sx, _, err := parseSexp(txt, 0)
	if err != nil {
		return nil, fmt.Errorf("parse %q: %v", txt, err)
	}
	if len(sx.list) != len(vars) {
		return nil, fmt.Errorf("get-value: got %d values for %d vars: %s", len(sx.list), len(vars), txt)
	}
	for i, pair := range sx.list {
		if len(pair.list) != 2 {
			return nil, fmt.Errorf("bad pair in %s", txt)
		}
		v, err := decodeValue(vars[i].Sort, pair.list[1])
		if err != nil {
			return nil, fmt.Errorf("decode %s: %v", pair.list[1].String(), err)
		}
		out[vars[i].Name] = v
	}
	return out, nil
}

func (s *Session) readSexp() (string, error) {
	var sb strings.Builder
	depth := 0
	started := false
	for {
		line, err := s.readLine()
		if err != nil {
			return "", err
		}
		sb.WriteString(line)
		sb.WriteByte(' ')
		for _, c := range line {
			if c == '(' {
				depth++
				started = true
			} else if c == ')' {
				depth--
			}
		}
		if started && depth <= 0 {
			break
		}
		if !started && line != "" {
			break
		}
	}
	return sb.String(), nil
}

type sexp struct {
	atom string
	list []*sexp
	isL  bool
}

func (x *sexp) String() string {
	if !x.isL {
		return x.atom
	}
	var parts []string
	for _, e := range x.list {
		parts = append(parts, e.String())
	}
	return "(" + strings.Join(parts, " ") + ")"
}

func parseSexp(s string, i int) (*sexp, int, error) {
	for i < len(s) && (s[i] == ' ' || s[i] == '\n' || s[i] == '\t') {
		i++
	}
	if i >= len(s) {
		return nil, i, fmt.Errorf("eof")
	}
	if s[i] == '(' {
		i++
		x := &sexp{isL: true}
		for {
			for i < len(s) && (s[i] == ' ' || s[i] == '\n' || s[i] == '\t') {
				i++
			}
			if i >= len(s) {
				return nil, i, fmt.Errorf("eof in list")
			}
			if s[i] == ')' {
				return x, i + 1, nil
			}
			e, j, err := parseSexp(s, i)
			if err != nil {
				return nil, j, err
			}
			x.list = append(x.list, e)
			i = j
		}
	}
	j := i
	if s[i] == '|' {
		j = i + 1
		for j < len(s) && s[j] != '|' {
			j++
		}
		j++
	} else {
		for j < len(s) && s[j] != ' ' && s[j] != ')' && s[j] != '(' && s[j] != '\n' {
			j++
		}
	}
	return &sexp{atom: s[i:j]}, j, nil
}

func decodeValue(sort Sort, x *sexp) (Value, error) {
	v := Value{Sort: sort, Raw: x.String()}
	switch sort {
	case SBool:
		v.B = x.atom == "true"
		return v, nil
	case SInt:
		n, err := decodeInt(x)
		if err != nil {
			return v, err
		}
		v.I = n
		return v, nil
	case SFP:
		f, err := decodeFP(x)
		v.F = f
		return v, err
	case SReal:
		r, err := decodeReal(x)
		if err != nil {
			return v, err
		}
		f, _ := r.Float64()
		v.F = f
		return v, nil
	}
	return v, fmt.Errorf("sort?")
}

func decodeInt(x *sexp) (*big.Int, error) {
	if !x.isL {
		n, ok := new(big.Int).SetString(x.atom, 10)
		if !ok {
			return nil, fmt.Errorf("bad int %q", x.atom)
		}
		return n, nil
	}
	if len(x.list) == 2 && x.list[0].atom == "-" {
		n, err := decodeInt(x.list[1])
		if err != nil {
			return nil, err
		}
		return n.Neg(n), nil
	}
	return nil, fmt.Errorf("bad int %s", x)
}

func decodeReal(x *sexp) (*big.Rat, error) {
	if !x.isL {
		r, ok := new(big.Rat).SetString(strings.TrimSuffix(x.atom, "?"))
		if !ok {
			return nil, fmt.Errorf("bad real %q", x.atom)
		}
		return r, nil
	}
	if len(x.list) == 2 && x.list[0].atom == "-" {
		r, err := decodeReal(x.list[1])
		if err != nil {
			return nil, err
		}
		return r.Neg(r), nil
	}
	if len(x.list) == 3 && x.list[0].atom == "/" {
		a, err := decodeReal(x.list[1])
		if err != nil {
			return nil, err
		}
		b, err := decodeReal(x.list[2])
		if err != nil {
			return nil, err
		}
		return a.Quo(a, b), nil
	}
	return nil, fmt.Errorf("bad real %s", x)
}

func decodeFP(x *sexp) (float64, error) {
	if !x.isL {
		return 0, fmt.Errorf("bad fp %q", x.atom)
	}
	if len(x.list) == 4 && x.list[0].atom == "_" {
		switch x.list[1].atom {
		case "+zero":
			return 0, nil
		case "-zero":
			return math.Copysign(0, -1), nil
		case "+oo":
			return math.Inf(1), nil
		case "-oo":
			return math.Inf(-1), nil
		case "NaN":
			return math.NaN(), nil
		}
	}
	if len(x.list) == 4 && x.list[0].atom == "fp" {
		sb, err1 := bits(x.list[1].atom)
		eb, err2 := bits(x.list[2].atom)
		mb, err3 := bits(x.list[3].atom)
		if err1 != nil || err2 != nil || err3 != nil {
			return 0, fmt.Errorf("bad fp bits %s", x)
		}
		return math.Float64frombits(sb<<63 | eb<<52 | mb), nil
	}
	return 0, fmt.Errorf("bad fp %s", x)
}

func bits(a string) (uint64, error) {
	var n uint64
	switch {
	case strings.HasPrefix(a, "#b"):
		for _, c := range a[2:] {
			n = n<<1 | uint64(c-'0')
		}
	case strings.HasPrefix(a, "#x"):
		for _, c := range a[2:] {
			var d uint64
			switch {
			case c >= '0' && c <= '9':
				d = uint64(c - '0')
			case c >= 'a' && c <= 'f':
				d = uint64(c-'a') + 10
			case c >= 'A' && c <= 'F':
				d = uint64(c-'A') + 10
			}
			n = n<<4 | d
		}
	default:
		return 0, fmt.Errorf("bits %q", a)
	}
	return n, nil
}

// ---- one-shot portfolio ----

// Script renders a standalone SMT-LIB2 script for the given assertions.
func Script(asserts []*Term, timeoutMs int, forCVC5 bool) string {
	var sb strings.Builder
	sb.WriteString("(set-logic ALL)\n")
	seen := map[int]bool{}
	decls := map[string]Decl{}
	for _, a := range asserts {
		CollectDecls(seen, decls, a)
	}
	for _, d := range SortedDecls(decls) {
		sb.WriteString(d.String())
		sb.WriteByte('\n')
	}
	// define shared subterms in topological order
	defined := map[int]bool{}
	var emit func(t *Term) string
	emit = func(t *Term) string {
		switch t.Op {
		case "true", "false", "int", "fp", "real":
			return leafString(t)
		case "var":
			return quote(t.Name)
		}
		if defined[t.id] {
			return tname(t)
		}
		args := make([]string, len(t.Args))
		for i, a := range t.Args {
			args[i] = emit(a)
		}
		j := strings.Join(args, " ")
		var body string
		switch t.Op {
		case "uf":
			if len(args) == 0 {
				body = quote(t.Name)
			} else {
				body = "(" + quote(t.Name) + " " + j + ")"
			}
		case "fp.add", "fp.sub", "fp.mul", "fp.div", "fp.sqrt":
			body = "(" + t.Op + " RNE " + j + ")"
		case "fp.roundToIntegral":
			body = "(fp.roundToIntegral " + t.Name + " " + j + ")"
		case "i2f":
			body = "((_ to_fp 11 53) RNE (to_real " + j + "))"
		case "f2i":
			a := j
			body = "(ite (or (fp.isNaN " + a + ") (fp.isInfinite " + a + ") (fp.geq " + a + " ((_ to_fp 11 53) RNE 9223372036854775808.0)) (fp.lt " + a + " ((_ to_fp 11 53) RNE (- 9223372036854775808.0)))) (- 9223372036854775808) (to_int (fp.to_real (fp.roundToIntegral RTZ " + a + "))))"
		default:
			body = "(" + t.Op + " " + j + ")"
		}
		defined[t.id] = true
		fmt.Fprintf(&sb, "(define-fun %s () %s %s)\n", tname(t), t.Sort, body)
		return tname(t)
	}
	for _, a := range asserts {
		r := emit(a)
		fmt.Fprintf(&sb, "(assert %s)\n", r)
	}
	sb.WriteString("(check-sat)\n")
	return sb.String()
}

// Portfolio runs the script on the alternative solvers concurrently and
// returns the first definite answer; disagreement yields Unknown.
func Portfolio(asserts []*Term, timeoutMs int) (Result, string) {
	script := Script(asserts, timeoutMs, false)
	type ans struct {
		r    Result
		name string
	}
	solvers := [][]string{
		{"cvc5", "--lang=smt2", fmt.Sprintf("--tlimit=%d", timeoutMs)},
		{"z3", "-in", fmt.Sprintf("-t:%d", timeoutMs)},
		{"z3-new", "-in", fmt.Sprintf("-t:%d", timeoutMs), "smt.random_seed=7"},
	}
	ch := make(chan ans, len(solvers))
	var procs []*exec.Cmd
	var pmu sync.Mutex
	for _, sv := range solvers {
		sv := sv
		go func() {
			cmd := exec.Command(sv[0], sv[1:]...)
			cmd.Stdin = strings.NewReader(script)
			pmu.Lock()
			procs = append(procs, cmd)
			pmu.Unlock()
			out, _ := cmd.Output()
			txt := strings.TrimSpace(string(out))
			r := Unknown
			if !strings.Contains(txt, "(error") {
				switch txt {
				case "sat":
					r = Sat
				case "unsat":
					r = Unsat
				}
			}
			ch <- ans{r, sv[0]}
		}()
	}
	res := Unknown
	who := ""
	deadline := time.After(time.Duration(timeoutMs)*time.Millisecond + 5*time.Second)
	for i := 0; i < len(solvers); i++ {
		select {
		case a := <-ch:
			if a.r != Unknown {
				res, who = a.r, a.name
				i = len(solvers)
			}
		case <-deadline:
			i = len(solvers)
		}
	}
	pmu.Lock()
	for _, p := range procs {
		if p.Process != nil {
			p.Process.Kill()
		}
	}
	pmu.Unlock()
	return res, who
}
