// Package smt: hash-consed SMT-LIB2 terms with light constant folding.
package smt

import (
	"fmt"
	"math"
	"math/big"
	"sort"
	"strings"
	"sync"
)

type Sort int

const (
	SBool Sort = iota
	SInt
	SFP   // (_ FloatingPoint 11 53)
	SReal // used by the extended-real interpretation
)

func (s Sort) String() string {
	switch s {
	case SBool:
		return "Bool"
	case SInt:
		return "Int"
	case SFP:
		return "(_ FloatingPoint 11 53)"
	case SReal:
		return "Real"
	}
	return "?"
}

// Term is an immutable hash-consed term.
type Term struct {
	Op   string // SMT operator, or "var", "int", "fp", "true", "false"
	Args []*Term
	Sort Sort
	Name string   // for var / UF application name
	I    *big.Int // for int const
	F    uint64   // for fp const: IEEE bits
	id   int
	key  string
}

var (
	mu     sync.Mutex
	table  = map[string]*Term{}
	nextID = 1
)

func mk(op string, sort Sort, name string, i *big.Int, f uint64, args ...*Term) *Term {
	var sb strings.Builder
	sb.WriteString(op)
	sb.WriteByte('|')
	sb.WriteString(name)
	sb.WriteByte('0' + byte(sort))
	if i != nil {
		sb.WriteByte('#')
		sb.WriteString(i.String())
	}
	if op == "fp" {
		fmt.Fprintf(&sb, "#%x", f)
	}
	for _, a := range args {
		fmt.Fprintf(&sb, ",%d", a.id)
	}
	k := sb.String()
	mu.Lock()
	defer mu.Unlock()
	if t, ok := table[k]; ok {
		return t
	}
	t := &Term{Op: op, Args: args, Sort: sort, Name: name, I: i, F: f, id: nextID, key: k}
	nextID++
	table[k] = t
	return t
}

func (t *Term) ID() int { return t.id }

var (
	True  = mk("true", SBool, "", nil, 0)
	False = mk("false", SBool, "", nil, 0)
)

func Var(name string, s Sort) *Term {
	if RealMode && s == SFP {
		s = SReal
	}
	return mk("var", s, name, nil, 0)
}

// RealMode (the "XR-lite" interpretation, DESIGN §0.2): every float term is built as an
// exact real; there is no rounding, no NaN and no infinity. Only meaningful for harnesses
// that restrict their inputs to finite values; decides "equal up to rounding" as equality
// over the reals.
var RealMode = false

func realConst(f float64) *Term {
	if f != f || math.IsInf(f, 0) {
		// no real counterpart: an unconstrained symbol (harnesses in real mode must not
		// depend on special values)
		return mk("var", SReal, fmt.Sprintf("r!special!%x", math.Float64bits(f)), nil, 0)
	}
	r := new(big.Rat).SetFloat64(f)
	return mk("real", SReal, r.String(), nil, 0)
}

func rbin(op string, a, b *Term) *Term { return mk(op, SReal, "", nil, 0, a, b) }

func ratOf(t *Term) (*big.Rat, bool) {
	if t.Op != "real" {
		return nil, false
	}
	r, ok := new(big.Rat).SetString(t.Name)
	return r, ok
}

func ratConst(r *big.Rat) *Term { return mk("real", SReal, r.String(), nil, 0) }
func IntConst(v int64) *Term    { return mk("int", SInt, "", big.NewInt(v), 0) }
func BigConst(v *big.Int) *Term { return mk("int", SInt, "", new(big.Int).Set(v), 0) }
func UintConst(v uint64) *Term  { return mk("int", SInt, "", new(big.Int).SetUint64(v), 0) }
func FPConst(f float64) *Term {
	if RealMode {
		return realConst(f)
	}
	b := math.Float64bits(f)
	if f != f {
		b = 0x7ff8000000000001 // canonical NaN
	}
	return mk("fp", SFP, "", nil, b)
}
func Bool(b bool) *Term {
	if b {
		return True
	}
	return False
}

func (t *Term) IsConst() bool {
	return t.Op == "int" || t.Op == "fp" || t.Op == "true" || t.Op == "false"
}
func (t *Term) IsTrue() bool  { return t == True }
func (t *Term) IsFalse() bool { return t == False }

func (t *Term) FloatVal() float64 { return math.Float64frombits(t.F) }

// ---- boolean ----

func Not(a *Term) *Term {
	switch {
	case a == True:
		return False
	case a == False:
		return True
	case a.Op == "not":
		return a.Args[0]
	}
	return mk("not", SBool, "", nil, 0, a)
}

func And(as ...*Term) *Term {
	var out []*Term
	seen := map[int]bool{}
	for _, a := range as {
		if a == False {
			return False
		}
		if a == True || seen[a.id] {
			continue
		}
		if a.Op == "and" {
			for _, b := range a.Args {
				if !seen[b.id] {
					seen[b.id] = true
					out = append(out, b)
				}
			}
			continue
		}
		seen[a.id] = true
		out = append(out, a)
	}
	for _, a := range out {
		if a.Op == "not" && seen[a.Args[0].id] {
			return False
		}
	}
	switch len(out) {
	case 0:
		return True
	case 1:
		return out[0]
	}
	return mk("and", SBool, "", nil, 0, out...)
}

func Or(as ...*Term) *Term {
	var out []*Term
	seen := map[int]bool{}
	for _, a := range as {
		if a == True {
			return True
		}
		if a == False || seen[a.id] {
			continue
		}
		if a.Op == "or" {
			for _, b := range a.Args {
				if !seen[b.id] {
					seen[b.id] = true
					out = append(out, b)
				}
			}
			continue
		}
		seen[a.id] = true
		out = append(out, a)
	}
	for _, a := range out {
		if a.Op == "not" && seen[a.Args[0].id] {
			return True
		}
	}
	switch len(out) {
	case 0:
		return False
	case 1:
		return out[0]
	}
	return mk("or", SBool, "", nil, 0, out...)
}

func Implies(a, b *Term) *Term { return Or(Not(a), b) }

func Ite(c, a, b *Term) *Term {
	if c == True {
		return a
	}
	if c == False {
		return b
	}
	if a == b {
		return a
	}
	if a.Sort == SBool {
		if a == True && b == False {
			return c
		}
		if a == False && b == True {
			return Not(c)
		}
	}
	return mk("ite", a.Sort, "", nil, 0, c, a, b)
}

func Eq(a, b *Term) *Term {
	if a == b {
		if a.Sort == SFP {
			// structural equality "=" on FP: identical terms are equal (NaN = NaN under =).
			return True
		}
		return True
	}
	if a.Sort == SBool {
		if a == True {
			return b
		}
		if b == True {
			return a
		}
		if a == False {
			return Not(b)
		}
		if b == False {
			return Not(a)
		}
	}
	if a.Op == "int" && b.Op == "int" {
		return Bool(a.I.Cmp(b.I) == 0)
	}
	if a.Op == "fp" && b.Op == "fp" {
		return Bool(a.F == b.F)
	}
	if a.id > b.id {
		a, b = b, a
	}
	return mk("=", SBool, "", nil, 0, a, b)
}

// ---- integers ----

func intBin(op string, a, b *Term) *Term {
	if op == "+" || op == "*" {
		a, b = canon(a, b)
	}
	return mk(op, SInt, "", nil, 0, a, b)
}

// canon orders the operands of a commutative operator: constants first, then by id.
func canon(a, b *Term) (*Term, *Term) {
	ac, bc := a.IsConst(), b.IsConst()
	switch {
	case ac && !bc:
		return a, b
	case bc && !ac:
		return b, a
	case a.id > b.id:
		return b, a
	}
	return a, b
}

// divExact returns t/c when t is syntactically a multiple of the constant c.
func divExact(t *Term, c *big.Int) (*Term, bool) {
	switch t.Op {
	case "int":
		q, r := new(big.Int).QuoRem(t.I, c, new(big.Int))
		if r.Sign() == 0 {
			return BigConst(q), true
		}
	case "*":
		for k := 0; k < 2; k++ {
			if t.Args[k].Op == "int" {
				q, r := new(big.Int).QuoRem(t.Args[k].I, c, new(big.Int))
				if r.Sign() == 0 {
					return Mul(BigConst(q), t.Args[1-k]), true
				}
			}
		}
	case "+":
		if len(t.Args) == 2 {
			a, ok1 := divExact(t.Args[0], c)
			b, ok2 := divExact(t.Args[1], c)
			if ok1 && ok2 {
				return Add(a, b), true
			}
		}
	case "-":
		if len(t.Args) == 2 {
			a, ok1 := divExact(t.Args[0], c)
			b, ok2 := divExact(t.Args[1], c)
			if ok1 && ok2 {
				return Sub(a, b), true
			}
		} else if len(t.Args) == 1 {
			if a, ok := divExact(t.Args[0], c); ok {
				return Neg(a), true
			}
		}
	}
	return nil, false
}

func Add(a, b *Term) *Term {
	if a.Op == "int" && b.Op == "int" {
		return BigConst(new(big.Int).Add(a.I, b.I))
	}
	if a.Op == "int" && a.I.Sign() == 0 {
		return b
	}
	if b.Op == "int" && b.I.Sign() == 0 {
		return a
	}
	return intBin("+", a, b)
}
func Sub(a, b *Term) *Term {
	if a.Op == "int" && b.Op == "int" {
		return BigConst(new(big.Int).Sub(a.I, b.I))
	}
	if b.Op == "int" && b.I.Sign() == 0 {
		return a
	}
	if a == b {
		return IntConst(0)
	}
	return intBin("-", a, b)
}
func Mul(a, b *Term) *Term {
	if a.Op == "int" && b.Op == "int" {
		return BigConst(new(big.Int).Mul(a.I, b.I))
	}
	if a.Op == "int" && a.I.IsInt64() && a.I.Int64() == 1 {
		return b
	}
	if b.Op == "int" && b.I.IsInt64() && b.I.Int64() == 1 {
		return a
	}
	if (a.Op == "int" && a.I.Sign() == 0) || (b.Op == "int" && b.I.Sign() == 0) {
		return IntConst(0)
	}
	return intBin("*", a, b)
}
func Neg(a *Term) *Term {
	if a.Op == "int" {
		return BigConst(new(big.Int).Neg(a.I))
	}
	return mk("-", SInt, "", nil, 0, a)
}

// TDiv is Go's truncated division (b != 0 assumed by caller).
func TDiv(a, b *Term) *Term {
	if a.Op == "int" && b.Op == "int" && b.I.Sign() != 0 {
		return BigConst(new(big.Int).Quo(a.I, b.I))
	}
	if b.Op == "int" && b.I.Sign() != 0 {
		if q, ok := divExact(a, b.I); ok {
			return q
		}
	}
	if b.Op == "int" && b.I.Sign() > 0 {
		// x>=0: div x b ; x<0: -(div (-x) b)
		return Ite(Ge(a, IntConst(0)), intBin("div", a, b), Neg(intBin("div", Neg(a), b)))
	}
	absA := Ite(Ge(a, IntConst(0)), a, Neg(a))
	absB := Ite(Ge(b, IntConst(0)), b, Neg(b))
	q := intBin("div", absA, absB)
	neg := mk("xor", SBool, "", nil, 0, Lt(a, IntConst(0)), Lt(b, IntConst(0)))
	return Ite(neg, Neg(q), q)
}

// TRem is Go's remainder: a - b*TDiv(a,b).
func TRem(a, b *Term) *Term {
	if a.Op == "int" && b.Op == "int" && b.I.Sign() != 0 {
		return BigConst(new(big.Int).Rem(a.I, b.I))
	}
	return Sub(a, Mul(b, TDiv(a, b)))
}

func cmpInt(op string, a, b *Term) *Term {
	if a.Op == "int" && b.Op == "int" {
		c := a.I.Cmp(b.I)
		switch op {
		case "<":
			return Bool(c < 0)
		case "<=":
			return Bool(c <= 0)
		case ">":
			return Bool(c > 0)
		case ">=":
			return Bool(c >= 0)
		}
	}
	if a == b {
		return Bool(op == "<=" || op == ">=")
	}
	return mk(op, SBool, "", nil, 0, a, b)
}
func Lt(a, b *Term) *Term { return cmpInt("<", a, b) }
func Le(a, b *Term) *Term { return cmpInt("<=", a, b) }
func Gt(a, b *Term) *Term { return cmpInt("<", b, a) }
func Ge(a, b *Term) *Term { return cmpInt("<=", b, a) }

// ---- floats ----

// Abstract selects the tier-1 abstraction: fp.mul/fp.div/int->fp become
// uninterpreted functions (see DESIGN §3.4).
var Abstract = false

// AbstractConst extends the abstraction to products/quotients with a constant operand.
var AbstractConst = false

func fpFold2(op string, a, b *Term) (*Term, bool) {
	if a.Op != "fp" || b.Op != "fp" {
		return nil, false
	}
	x, y := a.FloatVal(), b.FloatVal()
	switch op {
	case "fp.add":
		return FPConst(x + y), true
	case "fp.sub":
		return FPConst(x - y), true
	case "fp.mul":
		return FPConst(x * y), true
	case "fp.div":
		return FPConst(x / y), true
	}
	return nil, false
}

func FAdd(a, b *Term) *Term {
	if RealMode {
		if x, ok := ratOf(a); ok {
			if y, ok := ratOf(b); ok {
				return ratConst(new(big.Rat).Add(x, y))
			}
			if x.Sign() == 0 {
				return b
			}
		}
		if y, ok := ratOf(b); ok && y.Sign() == 0 {
			return a
		}
		a, b = canon(a, b)
		return rbin("+", a, b)
	}
	if r, ok := fpFold2("fp.add", a, b); ok {
		return r
	}
	// x + (+0) under RNE: x for every x except ±0, which give +0 (exact IEEE identity)
	pz := FPConst(0)
	if a == pz {
		return Ite(isNegZero(b), pz, b)
	}
	if b == pz {
		return Ite(isNegZero(a), pz, a)
	}
	a, b = canon(a, b)
	return mk("fp.add", SFP, "", nil, 0, a, b)
}

// isNegZero builds "x is -0" without arithmetic where the shape of x allows:
// under RNE a-b = -0 iff a = -0 and b = +0; a+b = -0 iff a = b = -0.
func isNegZero(x *Term) *Term {
	if RealMode {
		return False
	}
	nz := FPConst(math.Copysign(0, -1))
	pz := FPConst(0)
	switch x.Op {
	case "fp.sub":
		return And(Eq(x.Args[0], nz), Eq(x.Args[1], pz))
	case "fp.add":
		return And(Eq(x.Args[0], nz), Eq(x.Args[1], nz))
	case "ite":
		return Ite(x.Args[0], isNegZero(x.Args[1]), isNegZero(x.Args[2]))
	case "fp":
		return Bool(x == nz)
	}
	return Eq(x, nz)
}

func FSub(a, b *Term) *Term {
	if RealMode {
		if x, ok := ratOf(a); ok {
			if y, ok := ratOf(b); ok {
				return ratConst(new(big.Rat).Sub(x, y))
			}
		}
		if y, ok := ratOf(b); ok && y.Sign() == 0 {
			return a
		}
		if a == b {
			return ratConst(new(big.Rat))
		}
		return rbin("-", a, b)
	}
	if r, ok := fpFold2("fp.sub", a, b); ok {
		return r
	}
	return mk("fp.sub", SFP, "", nil, 0, a, b)
}
func FMul(a, b *Term) *Term {
	if RealMode {
		if x, ok := ratOf(a); ok {
			if y, ok := ratOf(b); ok {
				return ratConst(new(big.Rat).Mul(x, y))
			}
		}
		a, b = canon(a, b)
		return rbin("*", a, b)
	}
	if r, ok := fpFold2("fp.mul", a, b); ok {
		return r
	}
	if a.Op == "fp" && a.FloatVal() == 1 {
		return b
	}
	if b.Op == "fp" && b.FloatVal() == 1 {
		return a
	}
	if a.Op == "fp" && a.FloatVal() == -1 {
		return FNeg(b)
	}
	if b.Op == "fp" && b.FloatVal() == -1 {
		return FNeg(a)
	}
	if Abstract && (AbstractConst || (a.Op != "fp" && b.Op != "fp")) {
		a, b = canon(a, b)
		return mk("uf", SFP, "fmul", nil, 0, a, b)
	}
	a, b = canon(a, b)
	return mk("fp.mul", SFP, "", nil, 0, a, b)
}
func FDiv(a, b *Term) *Term {
	if RealMode {
		if x, ok := ratOf(a); ok {
			if y, ok := ratOf(b); ok && y.Sign() != 0 {
				return ratConst(new(big.Rat).Quo(x, y))
			}
		}
		return rbin("/", a, b)
	}
	if r, ok := fpFold2("fp.div", a, b); ok {
		return r
	}
	if b.Op == "fp" && b.FloatVal() == 1 {
		return a
	}
	if Abstract && (AbstractConst || (a.Op != "fp" && b.Op != "fp")) {
		return mk("uf", SFP, "fdiv", nil, 0, a, b)
	}
	return mk("fp.div", SFP, "", nil, 0, a, b)
}
func FNeg(a *Term) *Term {
	if RealMode {
		if x, ok := ratOf(a); ok {
			return ratConst(new(big.Rat).Neg(x))
		}
		return mk("-", SReal, "", nil, 0, a)
	}
	if a.Op == "fp" {
		return FPConst(-a.FloatVal())
	}
	if a.Op == "fp.neg" {
		return a.Args[0]
	}
	return mk("fp.neg", SFP, "", nil, 0, a)
}
func FAbs(a *Term) *Term {
	if RealMode {
		return Ite(FLt(a, realConst(0)), FNeg(a), a)
	}
	if a.Op == "fp" {
		return FPConst(math.Abs(a.FloatVal()))
	}
	return mk("fp.abs", SFP, "", nil, 0, a)
}
func FSqrt(a *Term) *Term {
	if RealMode {
		return mk("uf", SReal, "r!sqrt", nil, 0, a)
	}
	if a.Op == "fp" {
		return FPConst(math.Sqrt(a.FloatVal()))
	}
	return mk("fp.sqrt", SFP, "", nil, 0, a)
}

// FRound: mode is RTN (floor), RTP (ceil), RTZ (trunc), RNE.
func FRound(mode string, a *Term) *Term {
	if RealMode {
		return mk("uf", SReal, "r!round!"+mode, nil, 0, a)
	}
	if a.Op == "fp" {
		switch mode {
		case "RTN":
			return FPConst(math.Floor(a.FloatVal()))
		case "RTP":
			return FPConst(math.Ceil(a.FloatVal()))
		case "RTZ":
			return FPConst(math.Trunc(a.FloatVal()))
		case "RNE":
			return FPConst(math.RoundToEven(a.FloatVal()))
		}
	}
	return mk("fp.roundToIntegral", SFP, mode, nil, 0, a)
}

func fcmp(op string, a, b *Term) *Term {
	if RealMode {
		x, xok := ratOf(a)
		y, yok := ratOf(b)
		if xok && yok {
			c := x.Cmp(y)
			switch op {
			case "fp.lt":
				return Bool(c < 0)
			case "fp.leq":
				return Bool(c <= 0)
			default:
				return Bool(c == 0)
			}
		}
		switch op {
		case "fp.lt":
			return mk("<", SBool, "", nil, 0, a, b)
		case "fp.leq":
			return mk("<=", SBool, "", nil, 0, a, b)
		}
		return Eq(a, b)
	}
	if a.Op == "fp" && b.Op == "fp" {
		x, y := a.FloatVal(), b.FloatVal()
		switch op {
		case "fp.lt":
			return Bool(x < y)
		case "fp.leq":
			return Bool(x <= y)
		case "fp.eq":
			return Bool(x == y)
		}
	}
	return mk(op, SBool, "", nil, 0, a, b)
}
func FLt(a, b *Term) *Term { return fcmp("fp.lt", a, b) }
func FLe(a, b *Term) *Term { return fcmp("fp.leq", a, b) }
func FGt(a, b *Term) *Term { return fcmp("fp.lt", b, a) }
func FGe(a, b *Term) *Term { return fcmp("fp.leq", b, a) }
func FEq(a, b *Term) *Term { return fcmp("fp.eq", a, b) } // IEEE ==
func FIsNaN(a *Term) *Term {
	if RealMode {
		return False
	}
	if a.Op == "fp" {
		f := a.FloatVal()
		return Bool(f != f)
	}
	return mk("fp.isNaN", SBool, "", nil, 0, a)
}
func FIsInf(a *Term) *Term {
	if RealMode {
		return False
	}
	if a.Op == "fp" {
		return Bool(math.IsInf(a.FloatVal(), 0))
	}
	return mk("fp.isInfinite", SBool, "", nil, 0, a)
}
func FIsNeg(a *Term) *Term {
	if RealMode {
		return fcmp("fp.lt", a, realConst(0))
	}
	if a.Op == "fp" {
		f := a.FloatVal()
		return Bool(f == f && math.Signbit(f))
	}
	return mk("fp.isNegative", SBool, "", nil, 0, a)
}
func FIsZero(a *Term) *Term {
	if RealMode {
		return Eq(a, realConst(0))
	}
	if a.Op == "fp" {
		return Bool(a.FloatVal() == 0)
	}
	return mk("fp.isZero", SBool, "", nil, 0, a)
}

// I2F converts an Int term (assumed within int64 range) to float64, RNE.
func I2F(a *Term) *Term {
	if RealMode {
		if a.Op == "int" {
			return ratConst(new(big.Rat).SetInt(a.I))
		}
		return mk("to_real", SReal, "", nil, 0, a)
	}
	if a.Op == "int" {
		f, _ := new(big.Float).SetInt(a.I).Float64()
		return FPConst(f)
	}
	if Abstract {
		return mk("uf", SFP, "i2f", nil, 0, a)
	}
	return mk("i2f", SFP, "", nil, 0, a)
}

// F2I converts float64 to int64 the way amd64 does (NaN/out-of-range → MinInt64).
func F2I(a *Term) *Term {
	if RealMode {
		// truncation towards zero
		fl := mk("to_int", SInt, "", nil, 0, a)
		return Ite(fcmp("fp.leq", realConst(0), a), fl, Neg(mk("to_int", SInt, "", nil, 0, FNeg(a))))
	}
	if a.Op == "fp" {
		f := a.FloatVal()
		if f != f || f >= 9.223372036854775808e18 || f < -9.223372036854775808e18 {
			return IntConst(math.MinInt64)
		}
		return IntConst(int64(f))
	}
	return mk("f2i", SInt, "", nil, 0, a)
}

// UF applies an uninterpreted function of the given result sort.
func UF(name string, s Sort, args ...*Term) *Term {
	return mk("uf", s, name, nil, 0, args...)
}

// ---- printing ----

// Collect declares: returns vars and UFs used in terms, sorted.
type Decl struct {
	Name string
	Args []Sort
	Ret  Sort
}

func CollectDecls(seen map[int]bool, out map[string]Decl, t *Term) {
	if seen[t.id] {
		return
	}
	seen[t.id] = true
	switch t.Op {
	case "var":
		out[t.Name] = Decl{Name: t.Name, Ret: t.Sort}
	case "uf":
		d := Decl{Name: t.Name, Ret: t.Sort}
		for _, a := range t.Args {
			d.Args = append(d.Args, a.Sort)
		}
		out[t.Name+"/"+fmt.Sprint(len(t.Args))] = d
	}
	for _, a := range t.Args {
		CollectDecls(seen, out, a)
	}
}

func SortedDecls(m map[string]Decl) []Decl {
	var ks []string
	for k := range m {
		ks = append(ks, k)
	}
	sort.Strings(ks)
	var out []Decl
	for _, k := range ks {
		out = append(out, m[k])
	}
	return out
}

func (d Decl) String() string {
	var as []string
	for _, a := range d.Args {
		as = append(as, a.String())
	}
	return fmt.Sprintf("(declare-fun %s (%s) %s)", quote(d.Name), strings.Join(as, " "), d.Ret)
}

func quote(n string) string { return "|" + n + "|" }

// Printer prints terms with let-sharing via define-fun free approach: we print a DAG
// by naming shared subterms through nested lets is complex; instead terms are printed
// as trees with a memo of already printed strings (sizes here are small).
type Printer struct {
	memo map[int]string
}

func NewPrinter() *Printer { return &Printer{memo: map[int]string{}} }

func (p *Printer) Print(t *Term) string {
	if s, ok := p.memo[t.id]; ok {
		return s
	}
	var s string
	switch t.Op {
	case "true", "false":
		s = t.Op
	case "var":
		s = quote(t.Name)
	case "int":
		if t.I.Sign() < 0 {
			s = "(- " + new(big.Int).Neg(t.I).String() + ")"
		} else {
			s = t.I.String()
		}
	case "real":
		r, _ := new(big.Rat).SetString(t.Name)
		num, den := r.Num(), r.Denom()
		ns := num.String()
		if num.Sign() < 0 {
			ns = "(- " + new(big.Int).Neg(num).String() + ".0)"
		} else {
			ns += ".0"
		}
		if den.IsInt64() && den.Int64() == 1 {
			s = ns
		} else {
			s = "(/ " + ns + " " + den.String() + ".0)"
		}
	case "fp":
		b := t.F
		f := math.Float64frombits(b)
		if f != f {
			s = "(_ NaN 11 53)"
		} else {
			s = fmt.Sprintf("(fp #b%d #b%011b #x%013x)", b>>63, (b>>52)&0x7ff, b&((1<<52)-1))
		}
	case "uf":
		if len(t.Args) == 0 {
			s = quote(t.Name)
		} else {
			s = "(" + quote(t.Name) + p.args(t) + ")"
		}
	case "fp.add", "fp.sub", "fp.mul", "fp.div":
		s = "(" + t.Op + " RNE" + p.args(t) + ")"
	case "fp.sqrt":
		s = "(fp.sqrt RNE" + p.args(t) + ")"
	case "fp.roundToIntegral":
		s = "(fp.roundToIntegral " + t.Name + p.args(t) + ")"
	case "i2f":
		// Int -> Real -> FP (exact for |x| < 2^53, RNE otherwise)
		s = "((_ to_fp 11 53) RNE (to_real" + p.args(t) + "))"
	case "f2i":
		a := p.Print(t.Args[0])
		s = "(ite (or (fp.isNaN " + a + ") (fp.isInfinite " + a + ") (fp.geq " + a + " ((_ to_fp 11 53) RNE 9223372036854775808.0)) (fp.lt " + a + " ((_ to_fp 11 53) RNE (- 9223372036854775808.0)))) (- 9223372036854775808) (to_int (fp.to_real (fp.roundToIntegral RTZ " + a + "))))"
	default:
		s = "(" + t.Op + p.args(t) + ")"
	}
	p.memo[t.id] = s
	return s
}

func (p *Printer) args(t *Term) string {
	var sb strings.Builder
	for _, a := range t.Args {
		sb.WriteByte(' ')
		sb.WriteString(p.Print(a))
	}
	return sb.String()
}

var (
	fpMu   sync.Mutex
	fpMemo = map[int]bool{}
)

// HasFP reports whether t contains a floating-point subterm.
func HasFP(t *Term) bool {
	fpMu.Lock()
	v, ok := fpMemo[t.id]
	fpMu.Unlock()
	if ok {
		return v
	}
	r := t.Sort == SFP
	if !r {
		for _, a := range t.Args {
			if HasFP(a) {
				r = true
				break
			}
		}
	}
	fpMu.Lock()
	fpMemo[t.id] = r
	fpMu.Unlock()
	return r
}

// SimplifyUnder rewrites the boolean structure of t assuming the atoms in known
// (term id -> true) hold; negations of known atoms become false.
func SimplifyUnder(t *Term, known map[int]bool) *Term {
	if t.Sort != SBool {
		return t
	}
	if known[t.id] {
		return True
	}
	switch t.Op {
	case "not":
		if known[t.Args[0].id] {
			return False
		}
		return Not(SimplifyUnder(t.Args[0], known))
	case "and":
		out := make([]*Term, len(t.Args))
		for i, a := range t.Args {
			out[i] = SimplifyUnder(a, known)
		}
		return And(out...)
	case "or":
		out := make([]*Term, len(t.Args))
		for i, a := range t.Args {
			out[i] = SimplifyUnder(a, known)
		}
		return Or(out...)
	case "=":
		if t.Args[0].Sort == SBool {
			return Eq(SimplifyUnder(t.Args[0], known), SimplifyUnder(t.Args[1], known))
		}
	case "ite":
		return Ite(SimplifyUnder(t.Args[0], known), SimplifyUnder(t.Args[1], known), SimplifyUnder(t.Args[2], known))
	}
	if n := Not(t); known[n.id] {
		return False
	}
	return t
}

// QuotZero rewrites an FP term t into a term t' with t ≈ t', where a ≈ b means "both NaN
// or IEEE-equal" (signed zeros identified; this is sym.EqF). It removes the zero-sign
// corrections ite(isNegZero(x), +0, x) that FAdd introduces for x + (+0), wherever the path
// from the root to that subterm goes only through operators that are congruent for ≈:
// add, sub, mul, neg, abs, sqrt, the numerator of div and the branches of ite (NOT the
// divisor of div, NOT ite conditions, NOT UFs). Because ≈ is an equivalence relation,
// EqF(a,b) ⟺ EqF(QuotZero(a), QuotZero(b)). The congruence lemmas are discharged by the
// solver in `gosym selfcheck` (on a reduced float format, where they are instant).
func QuotZero(t *Term) *Term {
	if RealMode || t.Sort != SFP {
		return t
	}
	switch t.Op {
	case "ite":
		if t.Args[1] == FPConst(0) && t.Args[0] == isNegZero(t.Args[2]) {
			return QuotZero(t.Args[2])
		}
		return Ite(t.Args[0], QuotZero(t.Args[1]), QuotZero(t.Args[2]))
	case "fp.add":
		return FAdd(QuotZero(t.Args[0]), QuotZero(t.Args[1]))
	case "fp.sub":
		return FSub(QuotZero(t.Args[0]), QuotZero(t.Args[1]))
	case "fp.mul":
		return FMul(QuotZero(t.Args[0]), QuotZero(t.Args[1]))
	case "fp.neg":
		return FNeg(QuotZero(t.Args[0]))
	case "fp.abs":
		return FAbs(QuotZero(t.Args[0]))
	case "fp.sqrt":
		return FSqrt(QuotZero(t.Args[0]))
	case "fp.div":
		return FDiv(QuotZero(t.Args[0]), t.Args[1])
	}
	return t
}
