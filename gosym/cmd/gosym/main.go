// gosym: solver-based checking of promql-engine by symbolic execution of go/ssa.
package main

import (
	"encoding/json"
	"flag"
	"fmt"
	"os"
	"os/exec"
	"runtime/pprof"
	"sort"
	"strings"
	"sync"
	"time"

	"gosym/interp"
	"gosym/smt"
)

func defaultOpts(tier string) *interp.Options {
	o := &interp.Options{
		Tier:         tier,
		MaxDecisions: 4000,
		MaxSteps:     20_000_000,
		TimeoutMs:    3_000,
		AssertTimeMs: 30_000,
		MaxFaults:    1,
		KnownOpen:    map[string]bool{},
		Explore:      -1,
		Params:       map[string]int{},
		Witnesses:    3,
		KnownSeen:    &sync.Map{},
		ReachSeen:    &sync.Map{},
		LazyFP:       true,
	}
	if tier == "thorough" {
		o.AssertTimeMs = 120_000
		o.TimeoutMs = 10_000
		o.Witnesses = 10
	}
	return o
}

func main() {
	if len(os.Args) < 2 {
		fmt.Fprintln(os.Stderr, "usage: gosym run|check|replay|selfcheck ...")
		os.Exit(2)
	}
	switch os.Args[1] {
	case "run":
		os.Exit(cmdRun(os.Args[2:]))
	case "check":
		os.Exit(cmdCheck(os.Args[2:]))
	case "replay":
		os.Exit(cmdReplay(os.Args[2:]))
	case "selfcheck":
		os.Exit(cmdSelfcheck())
	}
	fmt.Fprintln(os.Stderr, "unknown command", os.Args[1])
	os.Exit(2)
}

func cmdSelfcheck() int {
	for _, s := range []string{"z3-new", "z3", "cvc5"} {
		if _, err := lookPath(s); err != nil {
			fmt.Println("missing solver", s)
			return 2
		}
	}
	sess, err := smt.NewSession(5000)
	if err != nil {
		fmt.Println("cannot start solver:", err)
		return 2
	}
	defer sess.Close()
	x := smt.Var("x", smt.SFP)
	sess.Assert(smt.Not(smt.Eq(smt.FAdd(x, smt.FPConst(0)), x)))
	if r := sess.Check(); r != smt.Sat { // x = -0: -0 + 0 = +0
		fmt.Println("selfcheck: unexpected", r)
		return 2
	}
	if !quotZeroLemmas() {
		return 2
	}
	fmt.Println("selfcheck ok")
	return 0
}

// quotZeroLemmas discharges, at full double width on all three solvers, the facts that make
// smt.QuotZero sound: for each operator it recurses through, (1) replacing a -0 operand by
// +0 changes the result at most in the sign of a zero (or both results are NaN), and (2) a
// NaN operand gives a NaN result. a ≈ a' means a, a' are bit-equal, or both NaN, or both
// zeros; so (1), (2) and transitivity of ≈ give congruence in each argument.
func quotZeroLemmas() bool {
	const S = "(_ FloatingPoint 11 53)"
	const pz, nz = "(_ +zero 11 53)", "(_ -zero 11 53)"
	pre := "(declare-const b " + S + ")(declare-const n " + S + ")\n(define-fun eqv ((x " + S + ")(y " + S + ")) Bool (or (and (fp.isNaN x)(fp.isNaN y)) (fp.eq x y)))\n(assert (fp.isNaN n))\n"
	var goals []string
	for _, op := range []string{"fp.add RNE", "fp.sub RNE", "fp.mul RNE"} {
		goals = append(goals,
			fmt.Sprintf("(eqv (%s %s b) (%s %s b))", op, pz, op, nz),
			fmt.Sprintf("(eqv (%s b %s) (%s b %s))", op, pz, op, nz),
			fmt.Sprintf("(fp.isNaN (%s n b))", op), fmt.Sprintf("(fp.isNaN (%s b n))", op))
	}
	goals = append(goals,
		fmt.Sprintf("(eqv (fp.div RNE %s b) (fp.div RNE %s b))", pz, nz), "(fp.isNaN (fp.div RNE n b))",
		fmt.Sprintf("(eqv (fp.sqrt RNE %s) (fp.sqrt RNE %s))", pz, nz), "(fp.isNaN (fp.sqrt RNE n))",
		fmt.Sprintf("(eqv (fp.neg %s) (fp.neg %s))", pz, nz), "(fp.isNaN (fp.neg n))",
		fmt.Sprintf("(eqv (fp.abs %s) (fp.abs %s))", pz, nz), "(fp.isNaN (fp.abs n))")
	for _, sv := range [][]string{{"z3-new", "-in"}, {"z3", "-in"}, {"cvc5", "--lang=smt2"}} {
		for _, g := range goals {
			cmd := exec.Command(sv[0], sv[1:]...)
			cmd.Stdin = strings.NewReader("(set-logic QF_FP)\n" + pre + "(assert (not " + g + "))\n(check-sat)\n")
			out, _ := cmd.CombinedOutput()
			if strings.TrimSpace(string(out)) != "unsat" {
				fmt.Printf("selfcheck: QuotZero lemma %s not discharged by %s: %s\n", g, sv[0], strings.TrimSpace(string(out)))
				return false
			}
		}
	}
	fmt.Printf("selfcheck: %d QuotZero congruence lemmas discharged by z3-new, z3, cvc5\n", len(goals))
	return true
}

func cmdRun(args []string) int {
	fs := flag.NewFlagSet("run", flag.ExitOnError)
	harness := fs.String("harness", "", "pkg/path.Func")
	tier := fs.String("tier", "quick", "quick|thorough")
	workers := fs.Int("workers", 16, "parallel workers")
	maxPaths := fs.Int("maxpaths", 200000, "path budget")
	trace := fs.Bool("trace", false, "trace instructions")
	prefix := fs.String("prefix", "", "run a single path with this decision prefix (comma separated)")
	explore := fs.Int("explore", -1, "preemption bound (-1: default scheduler)")
	timeout := fs.Duration("timeout", 30*time.Minute, "wall budget")
	smtlog := fs.String("smtlog", "", "write solver dialogue of worker 0 here (single path mode)")
	abstract := fs.Bool("abstract", true, "tier-1 float abstraction")
	solver := fs.String("solver", "z3-new", "primary incremental solver: z3-new | cvc5")
	realMode := fs.Bool("real", false, "exact-real interpretation of floats")
	subtree := fs.String("subtree", "", "explore only under this decision prefix")
	cpuprof := fs.String("cpuprofile", "", "write CPU profile")
	slow := fs.String("slowlog", "", "directory for scripts of slow queries")
	params := fs.String("param", "", "harness parameters name=int[,name=int...]")
	fs.Parse(args)
	if *cpuprof != "" {
		f, _ := os.Create(*cpuprof)
		pprof.StartCPUProfile(f)
		defer pprof.StopCPUProfile()
	}
	smt.SlowLog = *slow
	smt.SolverPath = *solver
	smt.RealMode = *realMode
	smt.Abstract = *abstract
	t0 := time.Now()
	_, _, pkgs, err := buildOverlay()
	if err != nil {
		fmt.Fprintln(os.Stderr, err)
		return 2
	}
	l, err := load(pkgs)
	if err != nil {
		fmt.Fprintln(os.Stderr, err)
		return 2
	}
	fmt.Fprintf(os.Stderr, "loaded in %.1fs\n", time.Since(t0).Seconds())
	fn, err := findFunc(l.prog, *harness)
	if err != nil {
		fmt.Fprintln(os.Stderr, err)
		return 2
	}
	l.world.Trace = *trace
	opts := defaultOpts(*tier)
	opts.Explore = *explore
	for _, kv := range strings.Split(*params, ",") {
		if k, v, ok := strings.Cut(kv, "="); ok {
			var n int
			fmt.Sscan(v, &n)
			opts.Params[k] = n
		}
	}
	if *subtree != "" {
		for _, s := range strings.Split(*subtree, ",") {
			var v int
			fmt.Sscan(s, &v)
			opts.Root = append(opts.Root, v)
		}
	}
	if *prefix != "" || *trace {
		var pf []int
		for _, s := range strings.Split(*prefix, ",") {
			if s == "" {
				continue
			}
			var v int
			fmt.Sscan(s, &v)
			pf = append(pf, v)
		}
		opts.TraceSched = true
		sess, err := smt.NewSession(opts.TimeoutMs)
		if err != nil {
			fmt.Fprintln(os.Stderr, err)
			return 2
		}
		if *smtlog != "" {
			f, _ := os.Create(*smtlog)
			defer f.Close()
			sess.Log = f
		}
		res := interp.RunPath(l.world, fn, pf, opts, sess)
		sess.Close()
		b, _ := json.MarshalIndent(res, "", " ")
		fmt.Println(string(b))
		return 0
	}
	sum := interp.Explore(l.world, fn, opts, *workers, *maxPaths, *timeout)
	printSummary(sum)
	if len(sum.Findings) > 0 {
		return 1
	}
	if len(sum.Problems) > 0 {
		return 2
	}
	return 0
}

func printSummary(sum *interp.Summary) {
	fmt.Printf("harness %s: %d paths %v, %d asserts, %d decisions, %d steps, %.1fs wall; solver: %d queries (%d sat, %d unsat, %d unknown, %d feasibility-unknown, %d portfolio) %.1fs max %.1fs\n",
		sum.Harness, sum.Paths, sum.ByOutcome, sum.Asserts, sum.Decisions, sum.Steps, sum.WallS,
		sum.Stats.Queries, sum.Stats.Sat, sum.Stats.Unsat, sum.Stats.Unknown, sum.FeasUnknown, sum.Stats.Fallback, sum.Stats.TimeS, sum.Stats.MaxS)
	var rs []string
	for r, n := range sum.Reached {
		rs = append(rs, fmt.Sprintf("%s×%d", r, n))
	}
	sort.Strings(rs)
	fmt.Println("reached:", strings.Join(rs, " "))
	for _, p := range sum.Problems {
		fmt.Println("PROBLEM:", p)
	}
	for _, f := range sum.Known {
		fmt.Printf("known %s at %s: %v\n", f.KnownID, f.Site, f.Inputs)
	}
	for k, f := range sum.Findings {
		if k > 10 {
			break
		}
		fmt.Printf("FINDING %s %s %s inputs=%v decisions=%v\n", f.Kind, f.Site, f.Msg, f.Inputs, f.Decisions)
	}
}
