package main

import (
	"os/exec"
)

func lookPath(s string) (string, error) { return exec.LookPath(s) }

func cmdCheck(args []string) int  { return 2 }
func cmdReplay(args []string) int { return 2 }
