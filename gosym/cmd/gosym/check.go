package main

import (
	"bytes"
	"encoding/json"
	"flag"
	"fmt"
	"os"
	"os/exec"
	"path/filepath"
	"sort"
	"strings"
	"time"

	"gosym/interp"
	"gosym/smt"
)

func lookPath(s string) (string, error) { return exec.LookPath(s) }

// ---- registry -------------------------------------------------------------

type HarnessSpec struct {
	ID        string         `json:"id"`
	Func      string         `json:"func"` // "execution/scan.VerifH02a"
	Tiers     []string       `json:"tiers,omitempty"`
	Explore   *int           `json:"explore,omitempty"`
	ExploreT  *int           `json:"explore_thorough,omitempty"`
	MaxFaults *int           `json:"max_faults,omitempty"`
	Solver    string         `json:"solver,omitempty"` // primary incremental solver (default z3-new)
	Real      bool           `json:"real,omitempty"`   // exact-real interpretation of floats (equal up to rounding)
	AbsConst  bool           `json:"abstract_const,omitempty"`
	Precise   bool           `json:"precise,omitempty"`   // do not use the tier-1 float abstraction
	NoReplay  bool           `json:"no_replay,omitempty"` // findings are schedule events (replayed inside gosym only)
	Params    map[string]int `json:"params,omitempty"`
	ParamsT   map[string]int `json:"params_thorough,omitempty"`
	MaxPaths  int            `json:"max_paths,omitempty"`
	Bounds    string         `json:"bounds,omitempty"`
	BoundsT   string         `json:"bounds_thorough,omitempty"`
	Outside   string         `json:"outside,omitempty"`
	MaxSteps  int64          `json:"max_steps,omitempty"`
	AssertMs  int            `json:"assert_ms,omitempty"`
	// QuickOnly: a harness shared from another property (where it is explored at full
	// depth) runs with its quick-tier bounds in both tiers of this property.
	QuickOnly bool `json:"quick_bounds_only,omitempty"`
}

type PropertySpec struct {
	Harnesses   []HarnessSpec `json:"harnesses"`
	Assumptions []string      `json:"assumptions,omitempty"`
}

type KnownFinding struct {
	ID       string `json:"id"`
	Property string `json:"property"`
	Status   string `json:"status"` // open | fixed
	Harness  string `json:"harness,omitempty"`
	Site     string `json:"site,omitempty"`
	What     string `json:"what"`
	Commit   string `json:"commit,omitempty"`
	Witness  string `json:"witness,omitempty"`
}

func readJSON(path string, v interface{}) error {
	b, err := os.ReadFile(path)
	if err != nil {
		return err
	}
	return json.Unmarshal(b, v)
}

// ---- evidence -------------------------------------------------------------

type Evidence struct {
	PropertyID  string                 `json:"property_id"`
	Tier        string                 `json:"tier"`
	Seed        int                    `json:"seed"`
	Level       string                 `json:"level"`
	Coverage    map[string]interface{} `json:"coverage"`
	Assumptions []string               `json:"assumptions"`
	WallS       float64                `json:"wall_s"`
	Violations  int                    `json:"violations"`
}

type replayFile struct {
	Property string            `json:"property"`
	Harness  string            `json:"harness"`
	Func     string            `json:"func"`
	Site     string            `json:"site"`
	Kind     string            `json:"kind"`
	Msg      string            `json:"msg"`
	Inputs   map[string]string `json:"inputs"`
	Choices  map[string]int    `json:"choices"`
	Tier     string            `json:"tier"`
	Params   map[string]int    `json:"params"`
	Decision []int             `json:"decisions"`
	Explore  int               `json:"explore"`
}

func cmdCheck(args []string) int {
	fs := flag.NewFlagSet("check", flag.ExitOnError)
	prop := fs.String("property", "", "property id, e.g. C02")
	tier := fs.String("tier", "quick", "quick|thorough")
	workers := fs.Int("workers", 16, "parallel workers")
	only := fs.String("only", "", "run only this harness id")
	noEvidence := fs.Bool("no-evidence", false, "do not write the evidence file")
	fs.Parse(args)
	t0 := time.Now()
	seed := 0
	if s := os.Getenv("VERIF_SEED"); s != "" {
		fmt.Sscan(s, &seed)
	}

	var reg map[string]PropertySpec
	if err := readJSON(filepath.Join(harnessDir, "registry.json"), &reg); err != nil {
		fmt.Fprintln(os.Stderr, "registry:", err)
		return 2
	}
	spec, ok := reg[*prop]
	if !ok {
		fmt.Fprintln(os.Stderr, "no harnesses registered for", *prop)
		return 2
	}
	var known []KnownFinding
	readJSON(filepath.Join(verifDir, "known_findings.json"), &known)
	knownOpen := map[string]bool{}
	knownByID := map[string]KnownFinding{}
	for _, k := range known {
		knownByID[k.ID] = k
		if k.Status == "open" {
			knownOpen[k.ID] = true
		}
	}

	_, _, pkgs, err := buildOverlay()
	if err != nil {
		fmt.Fprintln(os.Stderr, err)
		return 2
	}
	l, err := load(pkgs)
	if err != nil {
		fmt.Println("INCONCLUSIVE:", err)
		return 2
	}
	loadS := time.Since(t0).Seconds()

	var (
		problems    []string
		violations  int
		totalPaths  int
		totalDec    int
		totalAssert int
		stats       smt.Stats
		samples     []interface{}
		funcs       = map[string]bool{}
		bounds      = map[string]string{}
		outside     = map[string]string{}
		validated   int
		knownSeen   = map[string]string{}
		perHarness  = map[string]interface{}{}
		violLines   []string
	)
	for _, h := range spec.Harnesses {
		if *only != "" && h.ID != *only {
			continue
		}
		if len(h.Tiers) > 0 && !contains(h.Tiers, *tier) {
			continue
		}
		fn, err := findFunc(l.prog, h.Func)
		if err != nil {
			fmt.Println("INCONCLUSIVE:", err)
			problems = append(problems, err.Error())
			continue
		}
		htier := *tier
		if h.QuickOnly {
			htier = "quick"
		}
		opts := defaultOpts(htier)
		opts.KnownOpen = knownOpen
		opts.Seed = int64(seed)
		if h.Explore != nil {
			opts.Explore = *h.Explore
		}
		if htier == "thorough" && h.ExploreT != nil {
			opts.Explore = *h.ExploreT
		}
		if h.MaxFaults != nil {
			opts.MaxFaults = *h.MaxFaults
		}
		if h.MaxSteps > 0 {
			opts.MaxSteps = h.MaxSteps
		}
		if h.AssertMs > 0 {
			opts.AssertTimeMs = h.AssertMs
		}
		for k, v := range h.Params {
			opts.Params[k] = v
		}
		if htier == "thorough" {
			for k, v := range h.ParamsT {
				opts.Params[k] = v
			}
		}
		smt.Abstract = !h.Precise
		smt.AbstractConst = h.AbsConst
		smt.RealMode = h.Real
		smt.SolverPath = "z3-new"
		if h.Solver != "" {
			smt.SolverPath = h.Solver
		}
		smt.CVC5LimitMs = opts.AssertTimeMs
		maxPaths := h.MaxPaths
		if maxPaths == 0 {
			maxPaths = 400000
		}
		budget := 20 * time.Minute
		if htier == "thorough" {
			budget = 3 * time.Hour
		}
		sum := interp.Explore(l.world, fn, opts, *workers, maxPaths, budget)
		fmt.Printf("[%s %s] ", *prop, h.ID)
		printSummary(sum)
		totalPaths += sum.Paths
		totalDec += sum.Decisions
		totalAssert += sum.Asserts
		stats.Merge(sum.Stats)
		for f := range sum.Funcs {
			funcs[f] = true
		}
		b := h.Bounds
		if htier == "thorough" && h.BoundsT != "" {
			b = h.BoundsT
		}
		bounds[h.ID] = b
		if h.Outside != "" {
			outside[h.ID] = h.Outside
		}
		for _, p := range sum.Problems {
			problems = append(problems, h.ID+": "+p)
		}
		if len(sum.Reached) == 0 {
			problems = append(problems, h.ID+": vacuous — no Reached site on any feasible path")
		}
		for _, s := range sum.Samples {
			if len(samples) < 8 {
				s["harness"] = h.ID
				samples = append(samples, s)
			}
		}
		for _, f := range sum.Known {
			if _, seen := knownSeen[f.KnownID]; !seen {
				knownSeen[f.KnownID] = fmt.Sprintf("%s %s inputs=%v", h.ID, f.Site, f.Inputs)
			}
		}
		perHarness[h.ID] = map[string]interface{}{
			"paths": sum.Paths, "outcomes": sum.ByOutcome, "asserts": sum.Asserts, "assert_sites": sum.AssertSites,
			"reached": sum.Reached, "wall_s": round(sum.WallS), "solver_queries": sum.Stats.Queries, "solver_s": round(sum.Stats.TimeS),
		}

		// ---- native replay of findings
		bySite := map[string][]interp.Finding{}
		var sites []string
		for _, f := range sum.Findings {
			k := f.Kind + " " + f.Site
			if _, ok := bySite[k]; !ok {
				sites = append(sites, k)
			}
			bySite[k] = append(bySite[k], f)
		}
		sort.Strings(sites)
		var rp *replayer
		for _, k := range sites {
			fsite := bySite[k]
			reproduced := false
			spurious := 0
			var lastOut string
			try := func(f interp.Finding, n int) bool {
				rf := replayFile{Property: *prop, Harness: h.ID, Func: h.Func, Site: f.Site, Kind: f.Kind, Msg: f.Msg,
					Inputs: f.Inputs, Choices: f.Choices, Tier: htier, Params: opts.Params, Decision: f.Decisions, Explore: opts.Explore}
				path := filepath.Join(verifDir, "replays", *prop, sanitize(h.ID+"-"+f.Site)+fmt.Sprintf("-%d.json", n))
				os.MkdirAll(filepath.Dir(path), 0o755)
				bb, _ := json.MarshalIndent(rf, "", " ")
				os.WriteFile(path, bb, 0o644)
				if h.NoReplay || f.Kind == "deadlock" || f.Kind == "leak" || f.Kind == "race" || f.Kind == "write-ro" {
					// schedule / executor events: the decision vector replays them inside gosym
					violLines = append(violLines, fmt.Sprintf("VIOLATION property=%s replay=%s", *prop, path))
					fmt.Printf("  %s %s: %s (executor event; replay inside gosym: gosym replay %s)\n", f.Kind, f.Site, f.Msg, path)
					violations++
					return true
				}
				if rp == nil {
					rp, err = newReplayer(h.Func)
					if err != nil {
						problems = append(problems, h.ID+": cannot build native replay binary: "+err.Error())
						return false
					}
				}
				ok, out := rp.run(path, f.Kind)
				validated++
				lastOut = out
				if ok {
					violLines = append(violLines, fmt.Sprintf("VIOLATION property=%s replay=%s", *prop, path))
					fmt.Printf("  %s %s reproduced natively: %s\n", f.Kind, f.Site, firstLine(out))
					violations++
					return true
				}
				os.Remove(path)
				return false
			}
			for n, f := range fsite {
				if n >= 4 {
					break
				}
				if try(f, n) {
					reproduced = true
					break
				}
			}
			if !reproduced && smt.Abstract && rp != nil {
				// tier 3: re-decide the failing paths with precise floating point
				smt.Abstract = false
				smt.AbstractConst = false
				popts := *opts
				popts.AssertTimeMs = opts.AssertTimeMs * 2
				sess, serr := smt.NewSession(popts.TimeoutMs)
				if serr == nil {
					undecided := 0
					for n, f := range fsite {
						if n >= 6 {
							undecided += len(fsite) - n
							break
						}
						res := interp.RunPath(l.world, fn, f.Decisions, &popts, sess)
						stats.Merge(res.Stats)
						hit := false
						for _, pf := range res.Findings {
							hit = true
							if try(pf, 100+n) {
								reproduced = true
							}
						}
						if reproduced {
							break
						}
						if !hit && len(res.Unknowns) == 0 && (res.Outcome == "ok" || res.Outcome == "infeasible") {
							spurious++ // precise semantics: assertion holds on this path
						} else {
							undecided++
						}
					}
					sess.Close()
					if !reproduced && undecided == 0 && spurious > 0 {
						fmt.Printf("  %s: %d abstract counterexample(s) refuted by the precise floating-point encoding\n", k, spurious)
						reproduced = true // nothing to report
					}
				}
				smt.Abstract = true
				smt.AbstractConst = h.AbsConst
			}
			if !reproduced {
				problems = append(problems, fmt.Sprintf("%s: counterexample at %s did not reproduce natively (encoding or stub error?): %s", h.ID, k, firstLine(lastOut)))
			}
		}
		// ---- translator validation: models of passing paths must pass natively
		if len(sum.Witnesses) > 0 && !h.NoReplay {
			if rp == nil {
				rp, err = newReplayer(h.Func)
				if err != nil {
					problems = append(problems, h.ID+": cannot build native replay binary: "+err.Error())
				}
			}
			if rp != nil {
				for n, wt := range sum.Witnesses {
					rf := replayFile{Property: *prop, Harness: h.ID, Func: h.Func, Site: "witness", Kind: "witness",
						Inputs: wt.Inputs, Choices: wt.Choices, Tier: htier, Params: opts.Params, Decision: wt.Decisions}
					path := filepath.Join(verifDir, ".cache", "witness", fmt.Sprintf("%s-%s-%d.json", *prop, h.ID, n))
					os.MkdirAll(filepath.Dir(path), 0o755)
					bb, _ := json.Marshal(rf)
					os.WriteFile(path, bb, 0o644)
					failed, out := rp.run(path, "assert")
					validated++
					if failed {
						problems = append(problems, fmt.Sprintf("%s: translator validation failed — native run of a path the encoder passed reports: %s (inputs %v choices %v)", h.ID, firstLine(out), wt.Inputs, wt.Choices))
					}
				}
			}
		}
		if rp != nil {
			rp.close()
		}
	}

	var ids []string
	for id := range knownSeen {
		ids = append(ids, id)
	}
	sort.Strings(ids)
	for _, id := range ids {
		kp := knownByID[id].Property
		if kp == "" {
			kp = *prop
		}
		fmt.Printf("KNOWN-FINDING: property=%s %s %s\n", kp, id, knownByID[id].What)
	}
	for _, v := range violLines {
		fmt.Println(v)
	}
	for _, p := range problems {
		fmt.Println("INCONCLUSIVE:", p)
	}

	if !*noEvidence {
		var fl []string
		for f := range funcs {
			fl = append(fl, f)
		}
		sort.Strings(fl)
		if len(samples) == 0 {
			samples = append(samples, map[string]interface{}{"note": "no passing path with assertions"})
		}
		ev := Evidence{
			PropertyID: *prop, Tier: *tier, Seed: seed, Level: "model_checking",
			Coverage: map[string]interface{}{
				"states":                        maxInt(totalPaths, 1),
				"transitions":                   maxInt(totalDec, 1),
				"traces_validated_against_impl": validated,
				"samples":                       samples,
				"obligations":                   totalAssert,
				"explanation":                   "states = symbolic paths completed (each closed by solver verdicts over all values of its symbolic inputs); transitions = branch/choice decisions; obligations = assertion instances discharged (unsat of pc ∧ ¬assert)",
				"harnesses":                     perHarness,
				"functions_encoded":             fl,
				"bounds":                        bounds,
				"outside_bounds":                outside,
				"queries":                       map[string]interface{}{"total": stats.Queries, "sat": stats.Sat, "unsat": stats.Unsat, "unknown": stats.Unknown, "portfolio_fallbacks": stats.Fallback, "errors": stats.Errors},
				"solver_time_s":                 round(stats.TimeS),
				"solver_max_query_s":            round(stats.MaxS),
				"solvers":                       "z3-new 5.1.0 incremental (primary); cvc5 1.0.x, z3 4.8.12 (portfolio on unknown)",
				"source_hashes":                 l.hash,
				"known_findings_seen":           ids,
				"inconclusive":                  problems,
				"load_s":                        round(loadS),
			},
			Assumptions: spec.Assumptions,
			WallS:       round(time.Since(t0).Seconds()),
			Violations:  violations,
		}
		os.MkdirAll(filepath.Join(verifDir, "evidence"), 0o755)
		bb, _ := json.MarshalIndent(ev, "", " ")
		os.WriteFile(filepath.Join(verifDir, "evidence", *prop+".json"), bb, 0o644)
	}
	switch {
	case violations > 0:
		return 1
	case len(problems) > 0:
		return 2
	}
	fmt.Printf("OK property=%s tier=%s paths=%d asserts=%d wall=%.1fs\n", *prop, *tier, totalPaths, totalAssert, time.Since(t0).Seconds())
	return 0
}

func round(f float64) float64 { return float64(int(f*100)) / 100 }

func maxInt(a, b int) int {
	if a > b {
		return a
	}
	return b
}

func contains(xs []string, x string) bool {
	for _, y := range xs {
		if y == x {
			return true
		}
	}
	return false
}

func sanitize(s string) string {
	var b strings.Builder
	for _, c := range s {
		switch {
		case c >= 'a' && c <= 'z', c >= 'A' && c <= 'Z', c >= '0' && c <= '9', c == '-', c == '_', c == '.':
			b.WriteRune(c)
		default:
			b.WriteByte('_')
		}
	}
	if b.Len() > 120 {
		return b.String()[:120]
	}
	return b.String()
}

func firstLine(s string) string {
	s = strings.TrimSpace(s)
	for _, l := range strings.Split(s, "\n") {
		if strings.Contains(l, "ASSERT-FAILED") || strings.Contains(l, "panic:") || strings.Contains(l, "fatal error") {
			return strings.TrimSpace(l)
		}
	}
	if i := strings.Index(s, "\n"); i > 0 {
		return s[:i]
	}
	return s
}

// ---- native replay ----------------------------------------------------------

type replayer struct {
	bin string
	dir string
	fn  string
}

// newReplayer builds (once) a test binary for the package of the harness function
// against /repo's current tree with the harness files overlaid.
func newReplayer(full string) (*replayer, error) {
	dot := strings.LastIndex(full, ".")
	pkgRel, fn := full[:dot], full[dot+1:]
	_, real, _, err := buildOverlay()
	if err != nil {
		return nil, err
	}
	dir := filepath.Join(verifDir, ".cache", "replay", sanitize(pkgRel))
	os.MkdirAll(dir, 0o755)
	// generate the test driver
	pkgName, err := packageName(filepath.Join(repoDir, pkgRel))
	if err != nil {
		return nil, err
	}
	names, err := harnessFuncs(filepath.Join(harnessDir, pkgRel))
	if err != nil {
		return nil, err
	}
	var tb bytes.Buffer
	fmt.Fprintf(&tb, "package %s\n\nimport (\n\t\"os\"\n\t\"testing\"\n\n\tsym \"%s/zzverif/sym\"\n)\n\n", pkgName, modPath)
	fmt.Fprintf(&tb, "var verifHarnesses = map[string]func(){\n")
	for _, n := range names {
		fmt.Fprintf(&tb, "\t%q: %s,\n", n, n)
	}
	fmt.Fprintf(&tb, "}\n\nfunc TestVerifReplay(t *testing.T) {\n\tf := verifHarnesses[os.Getenv(\"VERIF_HARNESS\")]\n\tif f == nil {\n\t\tt.Fatalf(\"no harness\")\n\t}\n\tsym.Reset()\n\tf()\n\tif len(sym.Failures) > 0 {\n\t\tt.Fatalf(\"ASSERT-FAILED %%v\", sym.Failures)\n\t}\n}\n")
	testFile := filepath.Join(dir, "replay_test.go")
	if err := os.WriteFile(testFile, tb.Bytes(), 0o644); err != nil {
		return nil, err
	}
	ov := map[string]map[string]string{"Replace": {}}
	for virt, r := range real {
		ov["Replace"][virt] = r
	}
	ov["Replace"][filepath.Join(repoDir, pkgRel, "zz_verif_replay_test.go")] = testFile
	ob, _ := json.Marshal(ov)
	ovFile := filepath.Join(dir, "overlay.json")
	os.WriteFile(ovFile, ob, 0o644)
	bin := filepath.Join(dir, "replay.test")
	cmd := exec.Command("go", "test", "-c", "-vet=off", "-overlay", ovFile, "-o", bin, "./"+pkgRel)
	cmd.Dir = repoDir
	cmd.Env = goEnv()
	out, err := cmd.CombinedOutput()
	if err != nil {
		return nil, fmt.Errorf("go test -c: %v: %s", err, string(out))
	}
	return &replayer{bin: bin, dir: dir, fn: fn}, nil
}

// run executes the harness natively on the replay file; returns whether the failure
// (assertion failure, or a crash for kind "panic") was observed.
func (r *replayer) run(replayPath, kind string) (bool, string) {
	cmd := exec.Command(r.bin, "-test.run", "^TestVerifReplay$", "-test.count=1", "-test.timeout=120s")
	cmd.Env = append(os.Environ(), "VERIF_REPLAY="+replayPath, "VERIF_HARNESS="+r.fn)
	cmd.Dir = r.dir
	out, err := cmd.CombinedOutput()
	s := string(out)
	if err == nil {
		return false, s
	}
	if strings.Contains(s, "ASSERT-FAILED") {
		return true, s
	}
	if strings.Contains(s, "sym.Assume violated natively") {
		return false, s
	}
	if strings.Contains(s, "panic:") || strings.Contains(s, "fatal error:") {
		// a native crash reproduces panic findings, and also any assertion finding
		// whose native run dies before reaching the assertion
		return true, s
	}
	return false, s
}

func (r *replayer) close() {}

func packageName(dir string) (string, error) {
	ents, err := os.ReadDir(dir)
	if err != nil {
		return "", err
	}
	for _, e := range ents {
		if strings.HasSuffix(e.Name(), ".go") && !strings.HasSuffix(e.Name(), "_test.go") {
			b, err := os.ReadFile(filepath.Join(dir, e.Name()))
			if err != nil {
				continue
			}
			for _, l := range strings.Split(string(b), "\n") {
				if strings.HasPrefix(l, "package ") {
					return strings.Fields(l)[1], nil
				}
			}
		}
	}
	return "", fmt.Errorf("no package clause in %s", dir)
}

func harnessFuncs(dir string) ([]string, error) {
	ents, err := os.ReadDir(dir)
	if err != nil {
		return nil, err
	}
	var out []string
	for _, e := range ents {
		if !strings.HasSuffix(e.Name(), ".go") {
			continue
		}
		b, _ := os.ReadFile(filepath.Join(dir, e.Name()))
		for _, l := range strings.Split(string(b), "\n") {
			if strings.HasPrefix(l, "func Verif") && strings.Contains(l, "()") {
				name := strings.TrimPrefix(l, "func ")
				name = name[:strings.Index(name, "(")]
				out = append(out, name)
			}
		}
	}
	sort.Strings(out)
	return out, nil
}

func cmdReplay(args []string) int {
	if len(args) < 1 {
		fmt.Fprintln(os.Stderr, "usage: gosym replay <file>")
		return 2
	}
	var rf replayFile
	if err := readJSON(args[0], &rf); err != nil {
		fmt.Fprintln(os.Stderr, err)
		return 2
	}
	abs, _ := filepath.Abs(args[0])
	switch rf.Kind {
	case "deadlock", "leak", "race", "write-ro":
		return replayInside(rf)
	}
	rp, err := newReplayer(rf.Func)
	if err != nil {
		fmt.Fprintln(os.Stderr, err)
		return 2
	}
	ok, out := rp.run(abs, rf.Kind)
	fmt.Println(out)
	if ok {
		fmt.Printf("REPRODUCED property=%s harness=%s site=%s\n", rf.Property, rf.Harness, rf.Site)
		return 1
	}
	fmt.Println("not reproduced")
	return 0
}

// replayInside re-executes a decision vector in the interpreter and prints the result.
func replayInside(rf replayFile) int {
	_, _, pkgs, err := buildOverlay()
	if err != nil {
		fmt.Fprintln(os.Stderr, err)
		return 2
	}
	l, err := load(pkgs)
	if err != nil {
		fmt.Fprintln(os.Stderr, err)
		return 2
	}
	fn, err := findFunc(l.prog, rf.Func)
	if err != nil {
		fmt.Fprintln(os.Stderr, err)
		return 2
	}
	opts := defaultOpts(rf.Tier)
	opts.Explore = rf.Explore
	opts.TraceSched = true
	for k, v := range rf.Params {
		opts.Params[k] = v
	}
	sess, err := smt.NewSession(opts.TimeoutMs)
	if err != nil {
		fmt.Fprintln(os.Stderr, err)
		return 2
	}
	defer sess.Close()
	res := interp.RunPath(l.world, fn, rf.Decision, opts, sess)
	b, _ := json.MarshalIndent(res, "", " ")
	fmt.Println(string(b))
	if len(res.Findings) > 0 {
		fmt.Printf("REPRODUCED property=%s harness=%s site=%s\n", rf.Property, rf.Harness, rf.Site)
		return 1
	}
	return 0
}
