package main

import (
	"crypto/sha256"
	"fmt"
	"go/ast"
	"os"
	"path/filepath"
	"sort"
	"strings"

	"golang.org/x/tools/go/packages"
	"golang.org/x/tools/go/ssa"
	"golang.org/x/tools/go/ssa/ssautil"

	"gosym/interp"
)

const modPath = "github.com/thanos-community/promql-engine"

// The registered commands always use /repo and /verif. The two environment overrides exist
// only so that the developer tooling (tools/selftest_mutants.py, seeded-change trials) can
// run a check against a scratch copy without disturbing /repo or the committed evidence.
var (
	repoDir    = envOr("VERIF_REPO", "/repo")
	verifDir   = envOr("VERIF_DIR", "/verif")
	harnessDir = verifDir + "/harness"
)

func envOr(k, def string) string {
	if v := os.Getenv(k); v != "" {
		return v
	}
	return def
}

// overlay maps every harness file to a virtual file inside /repo.
// /verif/harness/sym/*.go           -> /repo/zzverif/sym/*.go
// /verif/harness/<pkg dirs>/<f>.go  -> /repo/<pkg dirs>/zz_verif_<f>.go
func buildOverlay() (map[string][]byte, map[string]string, []string, error) {
	ov := map[string][]byte{}
	real := map[string]string{}
	pkgs := map[string]bool{}
	err := filepath.Walk(harnessDir, func(p string, info os.FileInfo, err error) error {
		if err != nil {
			return err
		}
		if info.IsDir() || !strings.HasSuffix(p, ".go") {
			return nil
		}
		rel, _ := filepath.Rel(harnessDir, p)
		dir, file := filepath.Split(rel)
		dir = strings.TrimSuffix(dir, "/")
		var virt string
		if dir == "sym" || dir == "stub" || dir == "stubsel" {
			virt = filepath.Join(repoDir, "zzverif", dir, file)
			pkgs[modPath+"/zzverif/"+dir] = true
		} else {
			virt = filepath.Join(repoDir, dir, "zz_verif_"+file)
			pkgs[modPath+"/"+dir] = true
		}
		b, err := os.ReadFile(p)
		if err != nil {
			return err
		}
		ov[virt] = b
		real[virt] = p
		return nil
	})
	var ps []string
	for p := range pkgs {
		ps = append(ps, p)
	}
	sort.Strings(ps)
	return ov, real, ps, err
}

type loaded struct {
	world *interp.World
	prog  *ssa.Program
	pkgs  []*packages.Package
	hash  map[string]string // repo-relative file -> sha256 of source files of packages under the module
}

func goEnv() []string {
	env := os.Environ()
	env = append(env, "GOFLAGS=-mod=mod", "GOPROXY=off", "GOSUMDB=off", "GOTOOLCHAIN=local", "GOCACHE="+verifDir+"/.cache/go-build")
	return env
}

func load(patterns []string) (*loaded, error) {
	ov, _, _, err := buildOverlay()
	if err != nil {
		return nil, err
	}
	cfg := &packages.Config{
		Mode:       packages.LoadAllSyntax,
		Dir:        repoDir,
		Overlay:    ov,
		Env:        goEnv(),
		BuildFlags: []string{"-tags=noasm"},
	}
	pkgs, err := packages.Load(cfg, patterns...)
	if err != nil {
		return nil, err
	}
	var errs []string
	packages.Visit(pkgs, nil, func(p *packages.Package) {
		for _, e := range p.Errors {
			errs = append(errs, e.Error())
		}
	})
	if len(errs) > 0 {
		sort.Strings(errs)
		if len(errs) > 20 {
			errs = errs[:20]
		}
		return nil, fmt.Errorf("HARNESS-STALE or build error:\n%s", strings.Join(errs, "\n"))
	}
	prog, _ := ssautil.AllPackages(pkgs, ssa.InstantiateGenerics|ssa.SanityCheckFunctions&0)
	prog.Build()
	w := &interp.World{Prog: prog, Linknames: map[string]string{}}
	w.InitAllow = initAllow
	// linkname directives in harness files
	for _, p := range pkgs {
		for _, f := range p.Syntax {
			for _, cg := range f.Comments {
				scanLinknames(p.PkgPath, cg, w.Linknames)
			}
		}
	}
	w.Setup()
	l := &loaded{world: w, prog: prog, pkgs: pkgs, hash: map[string]string{}}
	packages.Visit(pkgs, nil, func(p *packages.Package) {
		if !strings.HasPrefix(p.PkgPath, modPath) {
			return
		}
		for _, f := range p.GoFiles {
			if b, err := os.ReadFile(f); err == nil {
				rel, _ := filepath.Rel(repoDir, f)
				l.hash[rel] = fmt.Sprintf("%x", sha256.Sum256(b))[:16]
			}
		}
	})
	return l, nil
}

func scanLinknames(pkg string, cg *ast.CommentGroup, out map[string]string) {
	for _, c := range cg.List {
		if strings.HasPrefix(c.Text, "//go:linkname ") {
			f := strings.Fields(c.Text)
			if len(f) == 3 {
				out[pkg+"."+f[1]] = f[2]
			}
		}
	}
}

// initAllow: packages whose initialisers are interpreted.
func initAllow(path string) bool {
	if strings.HasPrefix(path, modPath) {
		return true
	}
	switch path {
	case "github.com/prometheus/prometheus/promql/parser",
		"github.com/prometheus/prometheus/promql",
		"github.com/prometheus/prometheus/model/labels",
		"github.com/prometheus/prometheus/model/value",
		"github.com/prometheus/prometheus/model/histogram",
		"github.com/prometheus/prometheus/model/timestamp",
		"github.com/prometheus/prometheus/storage",
		"github.com/prometheus/prometheus/tsdb/chunkenc",
		"github.com/efficientgo/core/errors",
		"github.com/prometheus/prometheus/util/stats",
		"gonum.org/v1/gonum/floats",
		"gonum.org/v1/gonum/internal/asm/f64",
		"container/heap", "sort", "slices", "cmp":
		return true
	}
	return false
}

func findFunc(prog *ssa.Program, full string) (*ssa.Function, error) {
	dot := strings.LastIndex(full, ".")
	if dot < 0 {
		return nil, fmt.Errorf("bad function name %q", full)
	}
	p := full[:dot]
	if !strings.HasPrefix(p, modPath) {
		p = modPath + "/" + p
	}
	pkg := prog.ImportedPackage(p)
	if pkg == nil {
		return nil, fmt.Errorf("package %s not loaded", p)
	}
	fn := pkg.Func(full[dot+1:])
	if fn == nil {
		return nil, fmt.Errorf("HARNESS-STALE: function %s not found", full)
	}
	return fn, nil
}
