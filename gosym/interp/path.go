package interp

// Path state: decision vector, path condition, solver session, assertion checking.

import (
	"fmt"
	"math"
	"os"
	"sort"
	"strings"
	"sync"
	"time"

	"gosym/smt"
)

type abortKind int

const (
	abortInfeasible  abortKind = iota // Assume(false) / no feasible successor
	abortViolation                    // assertion violated; path stops
	abortUnsupported                  // instruction / library not encoded
	abortBound                        // unwinding / step / decision budget
	abortInternal                     // interpreter bug
	abortDone                         // harness asked to stop the path (sym.Stop)
	abortEvent                        // crash / deadlock / leak event (handled as violation or known)
)

func (k abortKind) String() string {
	return [...]string{"infeasible", "violation", "unsupported", "bound", "internal", "done", "event"}[k]
}

type pathAbort struct {
	kind abortKind
	msg  string
}

type killed struct{}

// Decision kinds are recorded only for reporting.
type decision struct {
	v    int
	what string
}

// Finding is one assertion failure / event with a model.
type Finding struct {
	Site      string            `json:"site"`
	Kind      string            `json:"kind"` // assert | panic | deadlock | leak | race | write-ro | overflow
	Msg       string            `json:"msg"`
	KnownID   string            `json:"known_id,omitempty"`
	Inputs    map[string]string `json:"inputs"`
	Decisions []int             `json:"decisions"`
	Choices   map[string]int    `json:"choices,omitempty"`
	Solver    string            `json:"solver,omitempty"`
}

// Witness is the model of a passing path (translator validation).
type Witness struct {
	Inputs    map[string]string
	Choices   map[string]int
	Decisions []int
}

// PathResult summarises one explored path.
type PathResult struct {
	Prefix      []int
	Decisions   []int
	Outcome     string // ok | infeasible | violation | unsupported | bound | internal | unknown
	Msg         string
	Findings    []Finding
	Known       []Finding
	Reached     []string
	Forks       [][]int
	Steps       int64
	Asserts     int
	AssertSites []string
	Stubs       []string
	Funcs       map[string]bool
	Unknowns    []string
	Observes    []string
	Choices     map[string]int
	Witness     *Witness
	FeasUnknown int
	FeasSkipped bool
	Trace       []string
	Stats       smt.Stats
}

type knownRegion struct {
	id     string
	region *smt.Term
}

type pathState struct {
	i         *interpreter
	prefix    []int
	decisions []int
	pc        []*smt.Term
	sess      *smt.Session
	oblig     []*smt.Term
	obligDesc []string
	inputs    []*smt.Term
	inputSeen map[string]bool
	res       *PathResult
	pendKnown []knownRegion
	faults    int
	opts      *Options
	pcChecked bool // pc known satisfiable since last strengthening

	atoms           map[int]bool
	lazy            bool
	sqrtMemo        map[int]*smt.Term
	infeasibleEvent bool
	wantWitness     bool
	lastModel       map[string]string
	leakCheck       bool
	poolNondet      bool
	gomaxprocs      int
	knownEvents     []knownEvent
	faultSites      int
	fmtTerms        []*smt.Term // symbolic integers that have been formatted on this path
}

// Options for a run.
type Options struct {
	Tier          string
	MaxDecisions  int
	MaxSteps      int64
	TimeoutMs     int
	AssertTimeMs  int
	MaxFaults     int
	KnownOpen     map[string]bool // ids of open known findings (regions active)
	Explore       int             // preemption bound; -1 = default scheduler
	Params        map[string]int
	Seed          int64
	Witnesses     int // number of passing-path models to collect for translator validation
	KnownSeen     *sync.Map
	ReachSeen     *sync.Map
	LazyFP        bool
	Root          []int // explore only the subtree under this decision prefix
	TraceSched    bool
	ExploreForced bool // also branch over which goroutine runs at forced (blocking) switches
}

func (p *pathState) nextDecision() (int, bool) {
	if len(p.decisions) < len(p.prefix) {
		return p.prefix[len(p.decisions)], true
	}
	return 0, false
}

func (p *pathState) record(v int) {
	p.decisions = append(p.decisions, v)
	if len(p.decisions) > p.opts.MaxDecisions {
		panic(pathAbort{kind: abortBound, msg: fmt.Sprintf("decision budget (%d) exhausted — unwinding bound", p.opts.MaxDecisions)})
	}
}

func (p *pathState) fork(alt int) {
	f := make([]int, len(p.decisions)+1)
	copy(f, p.decisions)
	f[len(p.decisions)] = alt
	p.res.Forks = append(p.res.Forks, f)
}

func (p *pathState) assume(t *smt.Term) {
	if t.IsTrue() {
		return
	}
	p.pc = append(p.pc, t)
	p.sess.Assert(t)
	p.noteAtoms(t)
}

// noteAtoms records the conjuncts of an assumed formula for the syntactic branch cache.
func (p *pathState) noteAtoms(t *smt.Term) {
	if p.atoms == nil {
		p.atoms = map[int]bool{}
	}
	if t.Op == "and" {
		for _, a := range t.Args {
			p.noteAtoms(a)
		}
		return
	}
	p.atoms[t.ID()] = true
}

// branch decides a symbolic condition, forking when both sides are feasible.
func (p *pathState) branch(c *smt.Term, what string) bool {
	if c.IsTrue() {
		return true
	}
	if c.IsFalse() {
		return false
	}
	// syntactic cache: the condition (or its negation) is already on the path
	c = smt.SimplifyUnder(c, p.atoms)
	if c.IsTrue() {
		return true
	}
	if c.IsFalse() {
		return false
	}
	if d, ok := p.nextDecision(); ok {
		p.record(d)
		if d == 1 {
			p.assume(c)
			return true
		}
		p.assume(smt.Not(c))
		return false
	}
	if p.opts.LazyFP && smt.HasFP(c) {
		// float conditions are not decided eagerly: both sides are explored and the
		// path's feasibility is settled once at its end (sound: assertions on an
		// infeasible path hold vacuously)
		p.lazy = true
		p.fork(0)
		p.record(1)
		p.assume(c)
		return true
	}
	rT := p.sess.CheckWith(c)
	var rF smt.Result
	if rT == smt.Unsat {
		rF = smt.Sat // pc is satisfiable by invariant
	} else {
		rF = p.sess.CheckWith(smt.Not(c))
	}
	if rT == smt.Unknown {
		p.res.FeasUnknown++
	}
	if rF == smt.Unknown {
		p.res.FeasUnknown++
	}
	switch {
	case rT != smt.Unsat && rF != smt.Unsat:
		p.fork(0)
		p.record(1)
		p.assume(c)
		return true
	case rT != smt.Unsat:
		p.record(1)
		p.assume(c)
		return true
	case rF != smt.Unsat:
		p.record(0)
		p.assume(smt.Not(c))
		return false
	}
	panic(pathAbort{kind: abortInfeasible, msg: "no feasible successor"})
}

// choose is a non-solver choice among n alternatives (IntRange, Choice, Fault, scheduling).
func (p *pathState) choose(n int, what string) int {
	if n <= 1 {
		return 0
	}
	if d, ok := p.nextDecision(); ok {
		p.record(d)
		return d
	}
	for alt := n - 1; alt >= 1; alt-- {
		p.fork(alt)
	}
	p.record(0)
	return 0
}

// concretize picks a concrete value for a symbolic integer, forking on "other values".
func (p *pathState) concretize(s symInt, what string) int64 {
	if d, ok := p.nextDecision(); ok {
		// decisions for concretisation store the value itself, followed by the marker
		p.record(d)
		v := int64(d)
		p.assume(smt.Eq(s.t, smt.IntConst(v)))
		return v
	}
	// ask the solver for a model value
	r := p.sess.Check()
	if r != smt.Sat {
		if r == smt.Unsat {
			panic(pathAbort{kind: abortInfeasible, msg: "pc unsat at concretize"})
		}
		panic(pathAbort{kind: abortUnsupported, msg: "solver unknown while concretising " + what})
	}
	probe := smt.Var(fmt.Sprintf("conc!%d", len(p.decisions)), smt.SInt)
	p.sess.Push()
	p.sess.Assert(smt.Eq(probe, s.t))
	p.sess.Check()
	vals, err := p.sess.GetValues([]*smt.Term{probe})
	p.sess.Pop()
	if err != nil {
		panic(pathAbort{kind: abortInternal, msg: "get-value: " + err.Error()})
	}
	v := vals[probe.Name].I
	if !v.IsInt64() || v.Int64() > math.MaxInt32 || v.Int64() < math.MinInt32 {
		panic(pathAbort{kind: abortUnsupported, msg: "concretised value out of range for " + what})
	}
	cv := v.Int64()
	// alternative: any other value — explored by a sibling path that assumes != cv.
	// We encode the sibling as decision value with a high bit marker handled in
	// concretizeOther; to keep the vector simple siblings re-enter here with the
	// blocking constraints accumulated in pc.
	p.forkConc(s, cv)
	p.record(int(cv))
	p.assume(smt.Eq(s.t, smt.IntConst(cv)))
	return cv
}

// forkConc schedules the exploration of the other values of s: the sibling path
// carries an explicit exclusion list encoded as extra prefix entries.
func (p *pathState) forkConc(s symInt, cv int64) {
	// enumerate remaining feasible values eagerly (bounded)
	excl := []*smt.Term{smt.Not(smt.Eq(s.t, smt.IntConst(cv)))}
	for n := 0; n < 64; n++ {
		p.sess.Push()
		for _, e := range excl {
			p.sess.Assert(e)
		}
		r := p.sess.Check()
		if r != smt.Sat {
			p.sess.Pop()
			if r == smt.Unknown {
				p.res.Unknowns = append(p.res.Unknowns, "concretize-enumeration")
			}
			return
		}
		probe := smt.Var(fmt.Sprintf("conc!%d!%d", len(p.decisions), n), smt.SInt)
		p.sess.Assert(smt.Eq(probe, s.t))
		p.sess.Check()
		vals, err := p.sess.GetValues([]*smt.Term{probe})
		p.sess.Pop()
		if err != nil {
			panic(pathAbort{kind: abortInternal, msg: "get-value: " + err.Error()})
		}
		v := vals[probe.Name].I
		if !v.IsInt64() || v.Int64() > math.MaxInt32 || v.Int64() < math.MinInt32 {
			panic(pathAbort{kind: abortUnsupported, msg: "concretised value out of range"})
		}
		p.fork(int(v.Int64()))
		excl = append(excl, smt.Not(smt.Eq(s.t, smt.IntConst(v.Int64()))))
	}
	panic(pathAbort{kind: abortBound, msg: "more than 64 values while concretising"})
}

func (p *pathState) addObligation(t *smt.Term, where string) {
	if t.IsTrue() {
		return
	}
	p.oblig = append(p.oblig, t)
	p.obligDesc = append(p.obligDesc, where)
}

func (p *pathState) addInput(v *smt.Term) {
	if p.inputSeen[v.Name] {
		panic(pathAbort{kind: abortInternal, msg: "duplicate symbolic input name " + v.Name})
	}
	p.inputSeen[v.Name] = true
	p.inputs = append(p.inputs, v)
}

// model extracts input values after a Sat check (session must still hold the stack).
func (p *pathState) model() map[string]string {
	vals, err := p.sess.GetValues(p.inputs)
	out := map[string]string{}
	if err != nil {
		out["!error"] = err.Error()
		return out
	}
	for k, v := range vals {
		switch v.Sort {
		case smt.SBool:
			out[k] = fmt.Sprint(v.B)
		case smt.SInt:
			out[k] = v.I.String()
		case smt.SFP, smt.SReal:
			out[k] = fmt.Sprintf("0x%016x", math.Float64bits(v.F))
		}
	}
	return out
}

// checkAssert decides pc ⇒ c.
func (p *pathState) checkAssert(site string, c *smt.Term, msg string) {
	p.res.Asserts++
	known := p.pendKnown
	p.pendKnown = nil
	c = smt.SimplifyUnder(c, p.atoms)
	if c.IsTrue() {
		return
	}
	neg := smt.Not(c)
	// (1) violation outside the known regions
	extra := []*smt.Term{neg}
	var r smt.Result
	who := ""
	if len(known) > 0 {
		// simplify the assertion under "outside every open region"
		tmp := map[int]bool{}
		for k, v := range p.atoms {
			tmp[k] = v
		}
		for _, k := range known {
			if p.opts.KnownOpen[k.id] {
				nr := smt.Not(k.region)
				extra = append(extra, nr)
				if nr.Op == "and" {
					for _, a := range nr.Args {
						tmp[a.ID()] = true
					}
				} else {
					tmp[nr.ID()] = true
				}
			}
		}
		if smt.SimplifyUnder(c, tmp).IsTrue() {
			r = smt.Unsat
		} else {
			t0 := time.Now()
			r, who = p.decide(extra)
			if smt.QLog {
				fmt.Fprintf(os.Stderr, "A %.2f %s %v\n", time.Since(t0).Seconds(), site, r)
			}
		}
	} else {
		t0 := time.Now()
		r, who = p.decide(extra)
		if smt.QLog {
			fmt.Fprintf(os.Stderr, "A %.2f %s %v\n", time.Since(t0).Seconds(), site, r)
		}
	}
	switch r {
	case smt.Sat:
		f := Finding{Site: site, Kind: "assert", Msg: msg, Decisions: append([]int(nil), p.decisions...), Choices: copyChoices(p.res.Choices), Solver: who}
		f.Inputs = p.lastModel
		p.res.Findings = append(p.res.Findings, f)
		panic(pathAbort{kind: abortViolation, msg: "assertion " + site + " violated"})
	case smt.Unknown:
		p.res.Unknowns = append(p.res.Unknowns, "assert:"+site)
	}
	// (2) known regions: report each that is hit
	for _, k := range known {
		if !p.opts.KnownOpen[k.id] {
			continue
		}
		if _, seen := p.opts.KnownSeen.Load(k.id); seen {
			continue // one witness per run is enough
		}
		r, who := p.decide([]*smt.Term{neg, k.region})
		if r == smt.Sat {
			f := Finding{Site: site, Kind: "assert", Msg: msg, KnownID: k.id, Decisions: append([]int(nil), p.decisions...), Choices: copyChoices(p.res.Choices), Solver: who}
			f.Inputs = p.lastModel
			p.res.Known = append(p.res.Known, f)
			p.opts.KnownSeen.Store(k.id, true)
		}
	}
	// continue under the assumption that the assertion holds
	if c.IsFalse() {
		panic(pathAbort{kind: abortInfeasible, msg: "path continues only inside a known finding region"})
	}
	p.assume(c)
	if len(known) > 0 {
		// the path may now continue only vacuously (inside a known region the
		// assertion never holds)
		if !smt.HasFP(c) {
			if p.sess.Check() == smt.Unsat {
				panic(pathAbort{kind: abortInfeasible, msg: "path continues only inside a known finding region"})
			}
		} else {
			p.lazy = true // settled lazily at the end of the path
		}
	}
}

// decide checks pc ∧ extra with the incremental solver, falling back to the portfolio.
func (p *pathState) decide(extra []*smt.Term) (smt.Result, string) {
	for _, e := range extra {
		if e.IsFalse() {
			return smt.Unsat, "trivial"
		}
	}
	p.sess.Push()
	for _, e := range extra {
		p.sess.Assert(e)
	}
	p.sess.SetTimeout(p.opts.AssertTimeMs)
	r := p.sess.Check()
	who := smt.SolverPath
	if r == smt.Sat {
		p.lastModel = p.model()
	}
	all := p.sess.AllAsserts()
	p.sess.SetTimeout(p.opts.TimeoutMs)
	p.sess.Pop()
	if r == smt.Unknown {
		p.sess.Stats.Fallback++
		r2, who2 := smt.Portfolio(all, p.opts.AssertTimeMs)
		if r2 != smt.Unknown {
			r, who = r2, who2
			if r == smt.Sat {
				p.lastModel = p.portfolioModel(all)
			}
		}
	}
	return r, who
}

// portfolioModel re-solves with a long timeout in the incremental solver to get a
// model when another solver said sat; falls back to an empty model.
func (p *pathState) portfolioModel(all []*smt.Term) map[string]string {
	return map[string]string{"!note": "sat by portfolio solver; no model extracted"}
}

// finish runs the end-of-path checks (overflow obligations).
func (p *pathState) finish() {
	if p.lazy {
		need := p.wantWitness
		for _, r := range p.res.Reached {
			if _, ok := p.opts.ReachSeen.Load(r); !ok {
				need = true
			}
		}
		if !need {
			p.res.FeasSkipped = true
		}
	}
	if p.lazy && !p.res.FeasSkipped {
		switch p.sess.Check() {
		case smt.Unsat:
			p.res.Outcome = "infeasible"
			p.res.Reached = nil
			return
		case smt.Unknown:
			p.res.FeasUnknown++
		case smt.Sat:
			for _, r := range p.res.Reached {
				p.opts.ReachSeen.Store(r, true)
			}
		}
	}
	if len(p.oblig) == 0 {
		return
	}
	viol := smt.Not(smt.And(p.oblig...))
	r, who := p.decide([]*smt.Term{viol})
	switch r {
	case smt.Sat:
		where := ""
		for k, o := range p.oblig {
			if rr, _ := p.decide([]*smt.Term{smt.Not(o)}); rr == smt.Sat {
				where = p.obligDesc[k]
				break
			}
		}
		f := Finding{Site: "overflow", Kind: "overflow", Msg: "integer overflow / lossy conversion reachable" + where, Decisions: append([]int(nil), p.decisions...), Choices: copyChoices(p.res.Choices), Solver: who, Inputs: p.lastModel}
		p.res.Findings = append(p.res.Findings, f)
		p.res.Outcome = "overflow"
	case smt.Unknown:
		p.res.Unknowns = append(p.res.Unknowns, "overflow-obligations")
	}
}

func sortedKeys(m map[string]bool) []string {
	var ks []string
	for k := range m {
		ks = append(ks, k)
	}
	sort.Strings(ks)
	return ks
}

func trimMsg(s string) string {
	if i := strings.Index(s, "\n"); i > 0 && len(s) > 2000 {
		return s[:2000]
	}
	return s
}

func copyChoices(m map[string]int) map[string]int {
	out := map[string]int{}
	for k, v := range m {
		out[k] = v
	}
	return out
}
