package interp

// Symbolic scalar values and their operations.

import (
	"fmt"
	"go/token"
	"go/types"
	"math"
	"math/big"

	"gosym/smt"
)

type symBool struct{ t *smt.Term }

// symInt is a machine integer of basic kind k represented as an unbounded SMT Int
// together with per-path no-overflow obligations.
type symInt struct {
	t *smt.Term
	k types.BasicKind
}

// symFloat is a float64: FP term plus optional "is the staleness marker" flag.
type symFloat struct {
	t     *smt.Term
	stale *smt.Term // nil = false
}

func isSym(v value) bool {
	switch v.(type) {
	case symBool, symInt, symFloat:
		return true
	}
	return false
}

func containsSym(v value) bool {
	switch v := v.(type) {
	case symBool, symInt, symFloat:
		return true
	case structure:
		for _, e := range v {
			if containsSym(e) {
				return true
			}
		}
	case array:
		for _, e := range v {
			if containsSym(e) {
				return true
			}
		}
	case iface:
		return containsSym(v.v)
	}
	return false
}

func mustConcrete(v value, what string) {
	if containsSym(v) {
		panic(pathAbort{kind: abortUnsupported, msg: "symbolic value used as " + what})
	}
}

const staleNaNBits = 0x7ff0000000000002

func basicKindOf(v value) types.BasicKind {
	switch v.(type) {
	case int:
		return types.Int
	case int8:
		return types.Int8
	case int16:
		return types.Int16
	case int32:
		return types.Int32
	case int64:
		return types.Int64
	case uint:
		return types.Uint
	case uint8:
		return types.Uint8
	case uint16:
		return types.Uint16
	case uint32:
		return types.Uint32
	case uint64:
		return types.Uint64
	case uintptr:
		return types.Uintptr
	}
	return types.Invalid
}

func kindRange(k types.BasicKind) (lo, hi *big.Int) {
	bits := uint(64)
	signed := true
	switch k {
	case types.Int, types.Int64:
	case types.Int8:
		bits = 8
	case types.Int16:
		bits = 16
	case types.Int32:
		bits = 32
	case types.Uint, types.Uint64, types.Uintptr:
		signed = false
	case types.Uint8:
		bits, signed = 8, false
	case types.Uint16:
		bits, signed = 16, false
	case types.Uint32:
		bits, signed = 32, false
	}
	one := big.NewInt(1)
	if signed {
		hi = new(big.Int).Sub(new(big.Int).Lsh(one, bits-1), one)
		lo = new(big.Int).Neg(new(big.Int).Lsh(one, bits-1))
	} else {
		lo = big.NewInt(0)
		hi = new(big.Int).Sub(new(big.Int).Lsh(one, bits), one)
	}
	return
}

// intTerm lifts an integer value (concrete or symbolic) to an Int term.
func intTerm(v value) (*smt.Term, types.BasicKind) {
	switch x := v.(type) {
	case symInt:
		return x.t, x.k
	case uint, uint8, uint16, uint32, uint64, uintptr:
		return smt.UintConst(asUint64(x)), basicKindOf(v)
	case int, int8, int16, int32, int64:
		return smt.IntConst(asInt64(x)), basicKindOf(v)
	}
	panic(fmt.Sprintf("intTerm: %T", v))
}

func floatTerm(v value) (*smt.Term, *smt.Term) {
	switch x := v.(type) {
	case symFloat:
		return x.t, x.stale
	case float64:
		if math.Float64bits(x) == staleNaNBits {
			return smt.FPConst(x), smt.True
		}
		return smt.FPConst(x), nil
	}
	panic(fmt.Sprintf("floatTerm: %T", v))
}

func boolTerm(v value) *smt.Term {
	switch x := v.(type) {
	case symBool:
		return x.t
	case bool:
		return smt.Bool(x)
	}
	panic(fmt.Sprintf("boolTerm: %T", v))
}

func mkBool(t *smt.Term) value {
	if t.IsTrue() {
		return true
	}
	if t.IsFalse() {
		return false
	}
	return symBool{t}
}

// mkInt wraps an Int term as a value of kind k, folding constants, and records the
// no-overflow obligation when the term is not constant.
func (i *interpreter) mkInt(t *smt.Term, k types.BasicKind, checked bool) value {
	if t.Op == "int" {
		lo, hi := kindRange(k)
		if t.I.Cmp(lo) < 0 || t.I.Cmp(hi) > 0 {
			// concrete wrap-around: reproduce machine semantics
			return wrapConst(t.I, k)
		}
		return concreteInt(t.I, k)
	}
	if checked {
		lo, hi := kindRange(k)
		i.path.addObligation(smt.And(smt.Le(smt.BigConst(lo), t), smt.Le(t, smt.BigConst(hi))), i.where())
	}
	return symInt{t, k}
}

func wrapConst(v *big.Int, k types.BasicKind) value {
	lo, hi := kindRange(k)
	mod := new(big.Int).Add(new(big.Int).Sub(hi, lo), big.NewInt(1))
	r := new(big.Int).Sub(v, lo)
	r.Mod(r, mod)
	r.Add(r, lo)
	return concreteInt(r, k)
}

func concreteInt(v *big.Int, k types.BasicKind) value {
	switch k {
	case types.Int:
		return int(v.Int64())
	case types.Int8:
		return int8(v.Int64())
	case types.Int16:
		return int16(v.Int64())
	case types.Int32:
		return int32(v.Int64())
	case types.Int64:
		return v.Int64()
	case types.Uint:
		return uint(v.Uint64())
	case types.Uint8:
		return uint8(v.Uint64())
	case types.Uint16:
		return uint16(v.Uint64())
	case types.Uint32:
		return uint32(v.Uint64())
	case types.Uint64:
		return v.Uint64()
	case types.Uintptr:
		return uintptr(v.Uint64())
	}
	panic("concreteInt kind")
}

func mkFloat(t, stale *smt.Term) value {
	if smt.RealMode {
		return symFloat{t, nil}
	}
	if t.Op == "fp" && (stale == nil || stale.IsConst()) {
		if stale != nil && stale.IsTrue() {
			return math.Float64frombits(staleNaNBits)
		}
		return t.FloatVal()
	}
	if stale != nil && stale.IsFalse() {
		stale = nil
	}
	return symFloat{t, stale}
}

func isIntVal(v value) bool {
	if _, ok := v.(symInt); ok {
		return true
	}
	return basicKindOf(v) != types.Invalid
}

func isFloatVal(v value) bool {
	switch v.(type) {
	case symFloat, float64:
		return true
	}
	return false
}

func isBoolVal(v value) bool {
	switch v.(type) {
	case symBool, bool:
		return true
	}
	return false
}

// symBinop handles a binary operation where at least one operand is symbolic.
func (i *interpreter) symBinop(op token.Token, t types.Type, x, y value) value {
	switch {
	case isIntVal(x) && (isIntVal(y) || op == token.SHL || op == token.SHR):
		a, k := intTerm(x)
		if op == token.SHL || op == token.SHR {
			// shifts by a concrete amount only
			if isSym(y) {
				panic(pathAbort{kind: abortUnsupported, msg: "symbolic shift count"})
			}
			n := asUint64sh(y)
			if n >= 62 {
				panic(pathAbort{kind: abortUnsupported, msg: "large shift of symbolic int"})
			}
			p := smt.IntConst(int64(1) << n)
			if op == token.SHL {
				return i.mkInt(smt.Mul(a, p), k, true)
			}
			// arithmetic shift right = floor division
			return i.mkInt(smt.Ite(smt.Ge(a, smt.IntConst(0)), smt.TDiv(a, p),
				smt.Sub(smt.TDiv(smt.Add(a, smt.IntConst(1)), p), smt.IntConst(1))), k, false)
		}
		b, _ := intTerm(y)
		switch op {
		case token.ADD:
			return i.mkInt(smt.Add(a, b), k, true)
		case token.SUB:
			return i.mkInt(smt.Sub(a, b), k, true)
		case token.MUL:
			return i.mkInt(smt.Mul(a, b), k, true)
		case token.QUO, token.REM:
			z := smt.Eq(b, smt.IntConst(0))
			if i.path.branch(z, "divzero") {
				panic(targetPanicString("runtime error: integer divide by zero"))
			}
			if op == token.QUO {
				return i.mkInt(smt.TDiv(a, b), k, true)
			}
			return i.mkInt(smt.TRem(a, b), k, false)
		case token.EQL:
			return mkBool(smt.Eq(a, b))
		case token.NEQ:
			return mkBool(smt.Not(smt.Eq(a, b)))
		case token.LSS:
			return mkBool(smt.Lt(a, b))
		case token.LEQ:
			return mkBool(smt.Le(a, b))
		case token.GTR:
			return mkBool(smt.Gt(a, b))
		case token.GEQ:
			return mkBool(smt.Ge(a, b))
		}
		panic(pathAbort{kind: abortUnsupported, msg: fmt.Sprintf("symbolic int op %s", op)})

	case isFloatVal(x) && isFloatVal(y):
		a, _ := floatTerm(x)
		b, _ := floatTerm(y)
		switch op {
		case token.ADD:
			return mkFloat(i.fadd(a, b), nil)
		case token.SUB:
			return mkFloat(i.fsub(a, b), nil)
		case token.MUL:
			return mkFloat(i.fmul(a, b), nil)
		case token.QUO:
			return mkFloat(i.fdiv(a, b), nil)
		case token.EQL:
			return mkBool(i.feq(a, b))
		case token.NEQ:
			return mkBool(smt.Not(i.feq(a, b)))
		case token.LSS:
			return mkBool(i.flt(a, b))
		case token.LEQ:
			return mkBool(i.fle(a, b))
		case token.GTR:
			return mkBool(i.flt(b, a))
		case token.GEQ:
			return mkBool(i.fle(b, a))
		}
		panic(pathAbort{kind: abortUnsupported, msg: fmt.Sprintf("symbolic float op %s", op)})

	case isBoolVal(x) && isBoolVal(y):
		a, b := boolTerm(x), boolTerm(y)
		switch op {
		case token.EQL:
			return mkBool(smt.Eq(a, b))
		case token.NEQ:
			return mkBool(smt.Not(smt.Eq(a, b)))
		case token.AND: // not generated by go/ssa for bools, but harmless
			return mkBool(smt.And(a, b))
		case token.OR:
			return mkBool(smt.Or(a, b))
		}
	}
	panic(pathAbort{kind: abortUnsupported, msg: fmt.Sprintf("symbolic binop %T %s %T", x, op, y)})
}

func asUint64sh(y value) uint64 {
	switch y := y.(type) {
	case int, int8, int16, int32, int64:
		return uint64(asInt64(y))
	}
	return asUint64(y)
}

// float primitive wrappers (XR mode swaps these; see xr.go)
func (i *interpreter) fadd(a, b *smt.Term) *smt.Term { return smt.FAdd(a, b) }
func (i *interpreter) fsub(a, b *smt.Term) *smt.Term { return smt.FSub(a, b) }
func (i *interpreter) fmul(a, b *smt.Term) *smt.Term { return smt.FMul(a, b) }
func (i *interpreter) fdiv(a, b *smt.Term) *smt.Term { return smt.FDiv(a, b) }
func (i *interpreter) feq(a, b *smt.Term) *smt.Term  { return smt.FEq(a, b) }
func (i *interpreter) flt(a, b *smt.Term) *smt.Term  { return smt.FLt(a, b) }
func (i *interpreter) fle(a, b *smt.Term) *smt.Term  { return smt.FLe(a, b) }

// symEq builds the term for Go's == on values of static type t.
func (i *interpreter) symEq(t types.Type, x, y value) *smt.Term {
	switch xx := x.(type) {
	case structure:
		yy := y.(structure)
		st := t.Underlying().(*types.Struct)
		acc := smt.True
		for k := range xx {
			if st.Field(k).Name() == "_" {
				continue
			}
			acc = smt.And(acc, i.symEq(st.Field(k).Type(), xx[k], yy[k]))
		}
		return acc
	case array:
		yy := y.(array)
		et := t.Underlying().(*types.Array).Elem()
		acc := smt.True
		for k := range xx {
			acc = smt.And(acc, i.symEq(et, xx[k], yy[k]))
		}
		return acc
	case iface:
		yy := y.(iface)
		if !sameType(xx.t, yy.t) {
			return smt.False
		}
		if xx.t == nil {
			return smt.True
		}
		return i.symEq(xx.t, xx.v, yy.v)
	}
	if isSym(x) || isSym(y) {
		switch {
		case isIntVal(x):
			a, _ := intTerm(x)
			b, _ := intTerm(y)
			return smt.Eq(a, b)
		case isFloatVal(x):
			a, _ := floatTerm(x)
			b, _ := floatTerm(y)
			return i.feq(a, b)
		case isBoolVal(x):
			return smt.Eq(boolTerm(x), boolTerm(y))
		}
		panic(pathAbort{kind: abortUnsupported, msg: fmt.Sprintf("symEq %T %T", x, y)})
	}
	return smt.Bool(equals(t, x, y))
}

func (i *interpreter) symUnop(op token.Token, x value) value {
	switch x := x.(type) {
	case symBool:
		if op == token.NOT {
			return mkBool(smt.Not(x.t))
		}
	case symInt:
		if op == token.SUB {
			return i.mkInt(smt.Neg(x.t), x.k, true)
		}
	case symFloat:
		if op == token.SUB {
			return mkFloat(smt.FNeg(x.t), nil)
		}
	}
	panic(pathAbort{kind: abortUnsupported, msg: fmt.Sprintf("symbolic unop %s %T", op, x)})
}

// symConv converts a symbolic numeric value to basic type dst.
func (i *interpreter) symConv(dst *types.Basic, x value) value {
	kind := dst.Kind()
	switch x := x.(type) {
	case symInt:
		switch {
		case dst.Info()&types.IsInteger != 0:
			if kind == x.k {
				return x
			}
			// value-preserving conversion required (obligation); wrap-around is
			// reported as overflow-reachable rather than modelled.
			return i.mkInt(x.t, kind, true)
		case kind == types.Float64:
			return mkFloat(smt.I2F(x.t), nil)
		}
	case symFloat:
		switch {
		case kind == types.Float64:
			return x
		case dst.Info()&types.IsInteger != 0:
			if kind == types.Int64 || kind == types.Int {
				return symInt{smt.F2I(x.t), kind}
			}
			// other integer kinds: require in-range via obligation
			return i.mkInt(smt.F2I(x.t), kind, true)
		}
	case symBool:
		if kind == types.Bool {
			return x
		}
	}
	panic(pathAbort{kind: abortUnsupported, msg: fmt.Sprintf("symbolic conversion %T -> %s", x, dst)})
}
