package interp

// Externals: modelled / natively executed functions (the trusted stubs).

import (
	"fmt"
	"go/token"
	"go/types"
	"math"
	"regexp"
	"sort"
	"strconv"
	"strings"
	"unicode"
	"unicode/utf8"

	"github.com/cespare/xxhash/v2"
	"golang.org/x/tools/go/ssa"

	"gosym/smt"
)

type externalFn func(fr *frame, args []value) value

// nativeFunc is a callable value implemented by the interpreter (e.g. a context
// cancel function).
type nativeFunc struct {
	name string
	f    func(fr *frame, args []value) value
}

var externals = map[string]externalFn{}

// deniedPackage: functions of these packages must never be interpreted from their
// bodies (they depend on runtime internals); reaching one is "unsupported".
func deniedPackage(fn *ssa.Function) string {
	if fn.Pkg == nil {
		return ""
	}
	switch p := fn.Pkg.Pkg.Path(); p {
	case "regexp", "github.com/grafana/regexp", "regexp/syntax", "github.com/grafana/regexp/syntax":
		return fn.Pkg.Pkg.Path()
	case "sync", "sync/atomic", "runtime", "reflect", "internal/reflectlite", "os", "syscall", "time", "unsafe", "internal/poll", "net", "testing", "context":
		if p == "context" || p == "time" {
			// pure helpers of these are fine (Background, Duration methods, ...)
			return ""
		}
		return p
	}
	return ""
}

func usedStub(fr *frame, name string) {
	if fr.i.path != nil && fr.i.path.res != nil {
		if fr.i.path.res.Funcs == nil {
			fr.i.path.res.Funcs = map[string]bool{}
		}
		fr.i.path.res.Funcs["stub:"+name] = true
	}
}

func reg(name string, f externalFn) {
	externals[name] = func(fr *frame, args []value) value {
		usedStub(fr, name)
		return f(fr, args)
	}
}

func str(v value) string {
	s, ok := v.(string)
	if !ok {
		panic(pathAbort{kind: abortUnsupported, msg: fmt.Sprintf("expected concrete string, got %T", v)})
	}
	return s
}

func bytesOf(v value) []byte {
	x := v.([]value)
	b := make([]byte, len(x))
	for i := range x {
		b[i] = x[i].(byte)
	}
	return b
}

func fromBytes(b []byte) []value {
	out := make([]value, len(b))
	for i := range b {
		out[i] = b[i]
	}
	return out
}

func stringsOf(v value) []string {
	x := v.([]value)
	out := make([]string, len(x))
	for i := range x {
		out[i] = str(x[i])
	}
	return out
}

func fromStrings(s []string) []value {
	out := make([]value, len(s))
	for i := range s {
		out[i] = s[i]
	}
	return out
}

// errorIface builds an error value of dynamic type *errors.errorString.
func (i *interpreter) errorString(msg string) value {
	pkg := i.prog.ImportedPackage("errors")
	t := pkg.Type("errorString").Object().Type()
	var cell value = structure{msg}
	return iface{t: types.NewPointer(t), v: &cell}
}

func globalOverride(i *interpreter, g *ssa.Global) (value, bool) {
	switch g.String() {
	case "context.Canceled":
		return i.errorString("context canceled"), true
	case "context.DeadlineExceeded":
		t := i.prog.ImportedPackage("context").Type("deadlineExceededError").Object().Type()
		return iface{t: t, v: structure{}}, true
	case "io.EOF":
		return i.errorString("EOF"), true
	case "context.closedchan":
		c := i.newChannel(0)
		c.closed = true
		return c, true
	case "context.cancelCtxKey":
		return 0, true
	}
	return nil, false
}

// genericExternal handles whole families by package.
func genericExternal(fn *ssa.Function) externalFn {
	if fn.Pkg == nil {
		return nil
	}
	return nil
}

// fmtArg converts an interpreter value to something printable natively.
func (fr *frame) fmtArg(v value) interface{} {
	switch x := v.(type) {
	case iface:
		if x.t == nil {
			return nil
		}
		// error / Stringer
		if m := fr.i.findMethod(x.t, "Error"); m != nil && m.Signature.Params().Len() == 0 {
			r := call(fr.i, fr, token.NoPos, m, []value{x.v})
			if s, ok := r.(string); ok {
				return fmtErr(s)
			}
		}
		if m := fr.i.findMethod(x.t, "String"); m != nil && m.Signature.Params().Len() == 0 && m.Signature.Results().Len() == 1 {
			r := call(fr.i, fr, token.NoPos, m, []value{x.v})
			if s, ok := r.(string); ok {
				return fmtStr(s)
			}
		}
		return fr.fmtArg(x.v)
	case symInt:
		return fmtStr(fr.i.fmtSymInt(x))
	case symBool:
		// formatted text may be compared or hashed by the program (cache keys): keep it exact
		return fr.i.path.branch(x.t, "format bool")
	case symFloat:
		return fmtStr("<sym>")
	case bool, int, int8, int16, int32, int64, uint, uint8, uint16, uint32, uint64, uintptr, float32, float64, string:
		return x
	case []value:
		out := make([]interface{}, len(x))
		for k := range x {
			out[k] = fr.fmtArg(x[k])
		}
		return out
	case structure:
		out := make([]interface{}, len(x))
		for k := range x {
			out[k] = fr.fmtArg(x[k])
		}
		return fmtStruct(out)
	case *value:
		if x == nil {
			return nil
		}
		return fmtStr(fmt.Sprintf("%p", x))
	}
	return fmtStr(toString(v))
}

// fmtSymInt: the text of a formatted symbolic integer. Programs hash or compare formatted
// numbers (cache keys), so the text must be equal exactly when the values are: the text
// names the term, and a term that may equal an earlier formatted one forks on that equality
// (the solver prunes the impossible side).
func (i *interpreter) fmtSymInt(x symInt) string {
	p := i.path
	name := func(t *smt.Term) string { return fmt.Sprintf("<sym#%d>", t.ID()) }
	for _, prev := range p.fmtTerms {
		if prev == x.t {
			return name(prev)
		}
	}
	for _, prev := range p.fmtTerms {
		if p.branch(smt.Eq(prev, x.t), "format int") {
			return name(prev)
		}
	}
	p.fmtTerms = append(p.fmtTerms, x.t)
	return name(x.t)
}

type fmtErr string

func (e fmtErr) Error() string { return string(e) }

type fmtStr string

func (s fmtStr) String() string { return string(s) }

type fmtStruct []interface{}

func (s fmtStruct) String() string {
	parts := make([]string, len(s))
	for i, e := range s {
		parts[i] = fmt.Sprint(e)
	}
	return "{" + strings.Join(parts, " ") + "}"
}

func (fr *frame) sprintf(format string, args []value) string {
	n := make([]interface{}, len(args))
	for k, a := range args {
		n[k] = fr.fmtArg(a)
	}
	return fmt.Sprintf(format, n...)
}

func ptr(v value) *value {
	p, ok := v.(*value)
	if !ok {
		panic(fmt.Sprintf("expected pointer, got %T", v))
	}
	return p
}

func init() {
	// ---- runtime / misc
	reg("runtime.GOMAXPROCS", func(fr *frame, args []value) value {
		if v, ok := fr.i.path.opts.Params["GOMAXPROCS"]; ok {
			return v
		}
		return fr.i.path.gomaxprocs
	})
	reg("runtime.NumCPU", func(fr *frame, args []value) value { return fr.i.path.gomaxprocs })
	reg("runtime.Gosched", func(fr *frame, args []value) value { fr.i.sched.yield("gosched"); return nil })
	reg("runtime.Stack", func(fr *frame, args []value) value { return 0 })
	reg("runtime.Callers", func(fr *frame, args []value) value { return 0 })
	reg("runtime/debug.Stack", func(fr *frame, args []value) value { return []value(nil) })
	reg("(runtime.errorString).Error", func(fr *frame, args []value) value { return "runtime error: " + str(args[0]) })
	reg("(runtime.errorString).RuntimeError", func(fr *frame, args []value) value { return nil })
	reg("runtime.KeepAlive", func(fr *frame, args []value) value { return nil })
	reg("github.com/efficientgo/core/errors.newStackTrace", func(fr *frame, args []value) value { return []value(nil) })

	// ---- regexp: compiled patterns are opaque; using one is unsupported
	for _, n := range []string{"regexp.MustCompile", "regexp.Compile", "github.com/grafana/regexp.MustCompile", "github.com/grafana/regexp.Compile"} {
		isMust := strings.Contains(n, "Must")
		reg(n, func(fr *frame, args []value) value {
			var cell value = structure{str(args[0])}
			if isMust {
				return &cell
			}
			return tuple{&cell, iface{}}
		})
	}

	// ---- prometheus regex matchers: native regexp on the concrete pattern
	reg("github.com/prometheus/prometheus/model/labels.NewFastRegexMatcher", func(fr *frame, args []value) value {
		pat := str(args[0])
		if _, err := regexp.Compile("^(?:" + pat + ")$"); err != nil {
			return tuple{(*value)(nil), fr.i.errorString(err.Error())}
		}
		var cell value = structure{pat}
		return tuple{&cell, iface{}}
	})
	reg("(*github.com/prometheus/prometheus/model/labels.FastRegexMatcher).MatchString", func(fr *frame, args []value) value {
		pat := (*ptr(args[0])).(structure)[0].(string)
		re := regexp.MustCompile("^(?:" + pat + ")$")
		return re.MatchString(str(args[1]))
	})
	reg("(*github.com/prometheus/prometheus/model/labels.FastRegexMatcher).GetRegexString", func(fr *frame, args []value) value {
		return (*ptr(args[0])).(structure)[0].(string)
	})

	// ---- prometheus/common model.ParseDuration (native re-implementation of the
	// documented grammar: ([0-9]+y)?([0-9]+w)?([0-9]+d)?([0-9]+h)?([0-9]+m)?([0-9]+s)?([0-9]+ms)?)
	reg("github.com/prometheus/common/model.ParseDuration", func(fr *frame, args []value) value {
		d, err := parsePromDuration(str(args[0]))
		if err != nil {
			return tuple{int64(0), fr.i.errorString(err.Error())}
		}
		return tuple{d, iface{}}
	})

	// ---- the embedded Prometheus engine and the query counter are modelled: the
	// reference engine itself is never interpreted (its answers are the reference by definition)
	reg("github.com/prometheus/prometheus/promql.NewEngine", func(fr *frame, args []value) value {
		t := fr.i.prog.ImportedPackage("github.com/prometheus/prometheus/promql").Type("Engine").Object().Type()
		var cell value = zero(t)
		return &cell
	})
	for _, n := range []string{"NewInstantQuery", "NewRangeQuery"} {
		reg("(*github.com/prometheus/prometheus/promql.Engine)."+n, func(fr *frame, args []value) value {
			t := fr.i.prog.ImportedPackage("github.com/prometheus/prometheus/promql").Type("query").Object().Type()
			var cell value = zero(t)
			fr.i.counters["fallback-queries"]++
			fr.i.counters["fallback:"+n]++ // which entry point of the reference engine was used
			return tuple{iface{t: types.NewPointer(t), v: &cell}, iface{}}
		})
	}
	reg("(*github.com/prometheus/prometheus/promql.Engine).SetQueryLogger", func(fr *frame, args []value) value { return nil })
	reg("(github.com/prometheus/client_golang/prometheus/promauto.Factory).NewCounterVec", func(fr *frame, args []value) value {
		t := fr.i.prog.ImportedPackage("github.com/prometheus/client_golang/prometheus").Type("CounterVec").Object().Type()
		var cell value = zero(t)
		return &cell
	})
	reg("(*github.com/prometheus/client_golang/prometheus.CounterVec).WithLabelValues", func(fr *frame, args []value) value {
		t := fr.i.prog.ImportedPackage("github.com/prometheus/client_golang/prometheus").Type("counter").Object().Type()
		var cell value = structure{strings.Join(stringsOf(args[1]), ",")}
		return iface{t: types.NewPointer(t), v: &cell}
	})
	reg("(*github.com/prometheus/client_golang/prometheus.counter).Inc", func(fr *frame, args []value) value {
		lbl := (*ptr(args[0])).(structure)[0].(string)
		fr.i.counters["counter:"+lbl]++
		return nil
	})

	// ---- prometheus client metrics (used by the real reference engine): opaque, no-op
	promPkg := "github.com/prometheus/client_golang/prometheus"
	mkMetric := func(fr *frame, typeName string) (types.Type, *value) {
		t := fr.i.prog.ImportedPackage(promPkg).Type(typeName).Object().Type()
		var cell value = zero(t)
		return t, &cell
	}
	reg(promPkg+".NewGauge", func(fr *frame, args []value) value {
		t, c := mkMetric(fr, "gauge")
		return iface{t: types.NewPointer(t), v: c}
	})
	reg(promPkg+".NewCounter", func(fr *frame, args []value) value {
		t, c := mkMetric(fr, "counter")
		return iface{t: types.NewPointer(t), v: c}
	})
	reg(promPkg+".NewSummaryVec", func(fr *frame, args []value) value {
		_, c := mkMetric(fr, "SummaryVec")
		return c
	})
	reg("(*"+promPkg+".SummaryVec).WithLabelValues", func(fr *frame, args []value) value {
		t, c := mkMetric(fr, "summary")
		return iface{t: types.NewPointer(t), v: c}
	})
	for _, m := range []string{"(*" + promPkg + ".gauge).Inc", "(*" + promPkg + ".gauge).Dec", "(*" + promPkg + ".gauge).Set", "(*" + promPkg + ".gauge).Add",
		"(*" + promPkg + ".summary).Observe", "(*" + promPkg + ".counter).Add"} {
		reg(m, func(fr *frame, args []value) value { return nil })
	}

	// ---- go-kit log: levels are the identity, Log is a no-op
	for _, n := range []string{"Error", "Debug", "Info", "Warn"} {
		reg("github.com/go-kit/log/level."+n, func(fr *frame, args []value) value { return args[0] })
	}

	// ---- fmt
	reg("fmt.Sprintf", func(fr *frame, args []value) value {
		return fr.sprintf(str(args[0]), args[1].([]value))
	})
	reg("fmt.Errorf", func(fr *frame, args []value) value {
		a := args[1].([]value)
		msg := fr.sprintf(strings.ReplaceAll(str(args[0]), "%w", "%v"), a)
		// keep the wrapped error reachable for errors.Is: model as efficientgo-like chain
		var wrapped value
		if strings.Contains(str(args[0]), "%w") {
			for _, x := range a {
				if it, ok := x.(iface); ok && it.t != nil && fr.i.findMethod(it.t, "Error") != nil {
					wrapped = it
				}
			}
		}
		if wrapped != nil {
			pkg := fr.i.prog.ImportedPackage("fmt")
			t := pkg.Type("wrapError").Object().Type()
			var cell value = structure{msg, wrapped}
			return iface{t: types.NewPointer(t), v: &cell}
		}
		return fr.i.errorString(msg)
	})
	reg("fmt.Sprint", func(fr *frame, args []value) value {
		a := args[0].([]value)
		n := make([]interface{}, len(a))
		for k := range a {
			n[k] = fr.fmtArg(a[k])
		}
		return fmt.Sprint(n...)
	})
	reg("fmt.Println", func(fr *frame, args []value) value { return tuple{0, iface{}} })
	reg("fmt.Printf", func(fr *frame, args []value) value { return tuple{0, iface{}} })

	// ---- errors (std)
	reg("errors.Is", func(fr *frame, args []value) value {
		return fr.i.errorsIs(fr, args[0].(iface), args[1].(iface))
	})
	reg("errors.Unwrap", func(fr *frame, args []value) value {
		return fr.i.errorsUnwrap(fr, args[0].(iface))
	})

	// ---- strings / strconv / sort (concrete, native)
	reg("strings.Join", func(fr *frame, args []value) value { return strings.Join(stringsOf(args[0]), str(args[1])) })
	reg("strings.HasPrefix", func(fr *frame, args []value) value { return strings.HasPrefix(str(args[0]), str(args[1])) })
	reg("strings.HasSuffix", func(fr *frame, args []value) value { return strings.HasSuffix(str(args[0]), str(args[1])) })
	reg("strings.Contains", func(fr *frame, args []value) value { return strings.Contains(str(args[0]), str(args[1])) })
	reg("strings.Index", func(fr *frame, args []value) value { return strings.Index(str(args[0]), str(args[1])) })
	reg("strings.IndexByte", func(fr *frame, args []value) value { return strings.IndexByte(str(args[0]), args[1].(byte)) })
	reg("strings.ToLower", func(fr *frame, args []value) value { return strings.ToLower(str(args[0])) })
	reg("strings.ToUpper", func(fr *frame, args []value) value { return strings.ToUpper(str(args[0])) })
	reg("strings.TrimSpace", func(fr *frame, args []value) value { return strings.TrimSpace(str(args[0])) })
	reg("strings.Compare", func(fr *frame, args []value) value { return strings.Compare(str(args[0]), str(args[1])) })
	reg("strings.EqualFold", func(fr *frame, args []value) value { return strings.EqualFold(str(args[0]), str(args[1])) })
	reg("strings.Repeat", func(fr *frame, args []value) value { return strings.Repeat(str(args[0]), args[1].(int)) })
	reg("strings.Split", func(fr *frame, args []value) value { return fromStrings(strings.Split(str(args[0]), str(args[1]))) })
	reg("strings.Replace", func(fr *frame, args []value) value {
		return strings.Replace(str(args[0]), str(args[1]), str(args[2]), args[3].(int))
	})
	reg("strings.ReplaceAll", func(fr *frame, args []value) value {
		return strings.ReplaceAll(str(args[0]), str(args[1]), str(args[2]))
	})
	reg("strconv.Itoa", func(fr *frame, args []value) value { return strconv.Itoa(args[0].(int)) })
	reg("strconv.Quote", func(fr *frame, args []value) value { return strconv.Quote(str(args[0])) })
	reg("strconv.FormatInt", func(fr *frame, args []value) value { return strconv.FormatInt(args[0].(int64), args[1].(int)) })
	reg("strconv.FormatFloat", func(fr *frame, args []value) value {
		f, ok := args[0].(float64)
		if !ok {
			return "<sym>"
		}
		return strconv.FormatFloat(f, args[1].(byte), args[2].(int), args[3].(int))
	})
	reg("strconv.ParseFloat", func(fr *frame, args []value) value {
		f, err := strconv.ParseFloat(str(args[0]), args[1].(int))
		if err != nil {
			return tuple{f, fr.i.errorString(err.Error())}
		}
		return tuple{f, iface{}}
	})
	reg("strconv.Atoi", func(fr *frame, args []value) value {
		n, err := strconv.Atoi(str(args[0]))
		if err != nil {
			return tuple{n, fr.i.errorString(err.Error())}
		}
		return tuple{n, iface{}}
	})
	reg("unicode/utf8.DecodeRuneInString", func(fr *frame, args []value) value {
		r, n := utf8.DecodeRuneInString(str(args[0]))
		return tuple{r, n}
	})
	reg("unicode/utf8.DecodeLastRuneInString", func(fr *frame, args []value) value {
		r, n := utf8.DecodeLastRuneInString(str(args[0]))
		return tuple{r, n}
	})
	reg("unicode/utf8.RuneLen", func(fr *frame, args []value) value { return utf8.RuneLen(args[0].(rune)) })
	reg("unicode/utf8.ValidRune", func(fr *frame, args []value) value { return utf8.ValidRune(args[0].(rune)) })
	reg("unicode.IsLetter", func(fr *frame, args []value) value { return unicode.IsLetter(args[0].(rune)) })
	reg("unicode.IsDigit", func(fr *frame, args []value) value { return unicode.IsDigit(args[0].(rune)) })
	reg("unicode.IsSpace", func(fr *frame, args []value) value { return unicode.IsSpace(args[0].(rune)) })
	reg("unicode.IsUpper", func(fr *frame, args []value) value { return unicode.IsUpper(args[0].(rune)) })
	reg("unicode.IsLower", func(fr *frame, args []value) value { return unicode.IsLower(args[0].(rune)) })
	reg("unicode.ToLower", func(fr *frame, args []value) value { return unicode.ToLower(args[0].(rune)) })
	reg("unicode.ToUpper", func(fr *frame, args []value) value { return unicode.ToUpper(args[0].(rune)) })
	reg("strings.IndexRune", func(fr *frame, args []value) value { return strings.IndexRune(str(args[0]), args[1].(rune)) })
	reg("strings.ContainsRune", func(fr *frame, args []value) value { return strings.ContainsRune(str(args[0]), args[1].(rune)) })
	reg("strings.ContainsAny", func(fr *frame, args []value) value { return strings.ContainsAny(str(args[0]), str(args[1])) })
	reg("strings.IndexAny", func(fr *frame, args []value) value { return strings.IndexAny(str(args[0]), str(args[1])) })
	reg("strings.LastIndex", func(fr *frame, args []value) value { return strings.LastIndex(str(args[0]), str(args[1])) })
	reg("strings.LastIndexByte", func(fr *frame, args []value) value { return strings.LastIndexByte(str(args[0]), args[1].(byte)) })
	reg("strings.Trim", func(fr *frame, args []value) value { return strings.Trim(str(args[0]), str(args[1])) })
	reg("strings.TrimLeft", func(fr *frame, args []value) value { return strings.TrimLeft(str(args[0]), str(args[1])) })
	reg("strings.TrimRight", func(fr *frame, args []value) value { return strings.TrimRight(str(args[0]), str(args[1])) })
	reg("strings.TrimPrefix", func(fr *frame, args []value) value { return strings.TrimPrefix(str(args[0]), str(args[1])) })
	reg("strings.TrimSuffix", func(fr *frame, args []value) value { return strings.TrimSuffix(str(args[0]), str(args[1])) })
	reg("strings.Fields", func(fr *frame, args []value) value { return fromStrings(strings.Fields(str(args[0]))) })
	reg("strings.Count", func(fr *frame, args []value) value { return strings.Count(str(args[0]), str(args[1])) })
	reg("strings.Title", func(fr *frame, args []value) value { return strings.Title(str(args[0])) })
	reg("strconv.Unquote", func(fr *frame, args []value) value {
		r, err := strconv.Unquote(str(args[0]))
		if err != nil {
			return tuple{r, fr.i.errorString(err.Error())}
		}
		return tuple{r, iface{}}
	})
	reg("strconv.ParseInt", func(fr *frame, args []value) value {
		r, err := strconv.ParseInt(str(args[0]), args[1].(int), args[2].(int))
		if err != nil {
			return tuple{r, fr.i.errorString(err.Error())}
		}
		return tuple{r, iface{}}
	})
	reg("strconv.ParseUint", func(fr *frame, args []value) value {
		r, err := strconv.ParseUint(str(args[0]), args[1].(int), args[2].(int))
		if err != nil {
			return tuple{r, fr.i.errorString(err.Error())}
		}
		return tuple{r, iface{}}
	})
	reg("unicode/utf8.ValidString", func(fr *frame, args []value) value { return utf8.ValidString(str(args[0])) })
	reg("unicode/utf8.RuneCountInString", func(fr *frame, args []value) value { return utf8.RuneCountInString(str(args[0])) })
	reg("sort.Strings", func(fr *frame, args []value) value {
		x := args[0].([]value)
		sort.Slice(x, func(a, b int) bool { return x[a].(string) < x[b].(string) })
		return nil
	})
	reg("sort.Slice", func(fr *frame, args []value) value { sortSlice(fr, args, false); return nil })
	reg("sort.SliceStable", func(fr *frame, args []value) value { sortSlice(fr, args, true); return nil })

	// ---- hashing (concrete)
	reg("github.com/cespare/xxhash/v2.Sum64", func(fr *frame, args []value) value { return xxhash.Sum64(bytesOf(args[0])) })
	reg("github.com/cespare/xxhash/v2.Sum64String", func(fr *frame, args []value) value { return xxhash.Sum64String(str(args[0])) })

	reg("github.com/cespare/xxhash/v2.New", func(fr *frame, args []value) value {
		var cell value = structure{xxhash.New()}
		return &cell
	})
	xd := func(v value) *xxhash.Digest { return (*ptr(v)).(structure)[0].(*xxhash.Digest) }
	reg("(*github.com/cespare/xxhash/v2.Digest).Write", func(fr *frame, args []value) value {
		if fr.i.isolate {
			fr.i.noteWrite(fr, ptr(args[0]), nil)
		}
		n, _ := xd(args[0]).Write(bytesOf(args[1]))
		return tuple{n, iface{}}
	})
	reg("(*github.com/cespare/xxhash/v2.Digest).WriteString", func(fr *frame, args []value) value {
		if fr.i.isolate {
			fr.i.noteWrite(fr, ptr(args[0]), nil)
		}
		n, _ := xd(args[0]).WriteString(str(args[1]))
		return tuple{n, iface{}}
	})
	reg("(*github.com/cespare/xxhash/v2.Digest).Sum64", func(fr *frame, args []value) value {
		if fr.i.isolate {
			fr.i.noteRead(fr, ptr(args[0]), nil)
		}
		return xd(args[0]).Sum64()
	})
	reg("(*github.com/cespare/xxhash/v2.Digest).Reset", func(fr *frame, args []value) value {
		if fr.i.isolate {
			fr.i.noteWrite(fr, ptr(args[0]), nil)
		}
		xd(args[0]).Reset()
		return nil
	})

	// ---- strings.Builder (uses unsafe): buf lives in field 1 as a []value of bytes
	sbBuf := func(v value) *value { return &(*ptr(v)).(structure)[1] }
	sbAppend := func(v value, b []byte) {
		p := sbBuf(v)
		cur, _ := (*p).([]value)
		*p = append(cur, fromBytes(b)...)
	}
	reg("(*strings.Builder).WriteString", func(fr *frame, args []value) value {
		sbAppend(args[0], []byte(str(args[1])))
		return tuple{len(str(args[1])), iface{}}
	})
	reg("(*strings.Builder).WriteByte", func(fr *frame, args []value) value {
		sbAppend(args[0], []byte{args[1].(byte)})
		return iface{}
	})
	reg("(*strings.Builder).WriteRune", func(fr *frame, args []value) value {
		b := []byte(string(args[1].(rune)))
		sbAppend(args[0], b)
		return tuple{len(b), iface{}}
	})
	reg("(*strings.Builder).Write", func(fr *frame, args []value) value {
		b := bytesOf(args[1])
		sbAppend(args[0], b)
		return tuple{len(b), iface{}}
	})
	reg("(*strings.Builder).String", func(fr *frame, args []value) value {
		cur, _ := (*sbBuf(args[0])).([]value)
		return string(bytesOf(cur))
	})
	reg("(*strings.Builder).Len", func(fr *frame, args []value) value {
		cur, _ := (*sbBuf(args[0])).([]value)
		return len(cur)
	})
	reg("(*strings.Builder).Reset", func(fr *frame, args []value) value { *sbBuf(args[0]) = []value(nil); return nil })
	reg("(*strings.Builder).Grow", func(fr *frame, args []value) value { return nil })

	// ---- sync
	reg("(*sync.Once).Do", func(fr *frame, args []value) value { fr.i.onceDo(fr, ptr(args[0]), args[1]); return nil })
	reg("(*sync.Mutex).Lock", func(fr *frame, args []value) value { fr.i.mutexLock(ptr(args[0])); return nil })
	reg("(*sync.Mutex).Unlock", func(fr *frame, args []value) value { fr.i.mutexUnlock(ptr(args[0])); return nil })
	reg("(*sync.RWMutex).Lock", func(fr *frame, args []value) value { fr.i.mutexLock(ptr(args[0])); return nil })
	reg("(*sync.RWMutex).Unlock", func(fr *frame, args []value) value { fr.i.mutexUnlock(ptr(args[0])); return nil })
	reg("(*sync.RWMutex).RLock", func(fr *frame, args []value) value { fr.i.mutexRLock(ptr(args[0])); return nil })
	reg("(*sync.RWMutex).RUnlock", func(fr *frame, args []value) value { fr.i.mutexRUnlock(ptr(args[0])); return nil })
	reg("(*sync.WaitGroup).Add", func(fr *frame, args []value) value { fr.i.wgAdd(ptr(args[0]), args[1].(int)); return nil })
	reg("(*sync.WaitGroup).Done", func(fr *frame, args []value) value { fr.i.wgAdd(ptr(args[0]), -1); return nil })
	reg("(*sync.WaitGroup).Wait", func(fr *frame, args []value) value { fr.i.wgWait(ptr(args[0])); return nil })
	reg("(*sync.Pool).Get", func(fr *frame, args []value) value {
		p := ptr(args[0])
		m := fr.i.pools[p]
		if m == nil {
			m = &poolModel{}
			fr.i.pools[p] = m
		}
		if n := len(m.items); n > 0 {
			k := n - 1
			if fr.i.path.poolNondet {
				c := fr.i.path.choose(n+1, "pool.Get")
				if c == n {
					k = -1
				} else {
					k = c
				}
			}
			if k >= 0 {
				it := m.items[k]
				m.items = append(m.items[:k:k], m.items[k+1:]...)
				return it
			}
		}
		// call New
		st := (*p).(structure)
		// sync.Pool fields: noCopy, local, localSize, victim, victimSize, New
		newf := st[len(st)-1]
		if f, ok := newf.(*ssa.Function); ok && f == nil {
			return iface{}
		}
		return call(fr.i, fr, token.NoPos, newf, nil)
	})
	// ---- sync.Map: an insertion-ordered map of interface keys per sync.Map object; every
	// operation is a scheduling point (it is atomic, like the real one)
	emptyIface := types.NewInterfaceType(nil, nil)
	syncMap := func(fr *frame, p *value) *omap {
		m := fr.i.syncMaps[p]
		if m == nil {
			m = &omap{keyType: emptyIface, index: make(map[int][]*oentry)}
			fr.i.syncMaps[p] = m
		}
		fr.i.sched.yield("sync.Map")
		return m
	}
	reg("(*sync.Map).Load", func(fr *frame, args []value) value {
		v, ok := syncMap(fr, ptr(args[0])).lookup(args[1])
		if !ok {
			return tuple{iface{}, false}
		}
		return tuple{v, true}
	})
	reg("(*sync.Map).Store", func(fr *frame, args []value) value {
		syncMap(fr, ptr(args[0])).insert(args[1], args[2])
		return nil
	})
	reg("(*sync.Map).LoadOrStore", func(fr *frame, args []value) value {
		m := syncMap(fr, ptr(args[0]))
		if v, ok := m.lookup(args[1]); ok {
			return tuple{v, true}
		}
		m.insert(args[1], args[2])
		return tuple{args[2], false}
	})
	reg("(*sync.Map).LoadAndDelete", func(fr *frame, args []value) value {
		m := syncMap(fr, ptr(args[0]))
		v, ok := m.lookup(args[1])
		if !ok {
			return tuple{iface{}, false}
		}
		m.delete(args[1])
		return tuple{v, true}
	})
	reg("(*sync.Map).Delete", func(fr *frame, args []value) value {
		syncMap(fr, ptr(args[0])).delete(args[1])
		return nil
	})
	reg("(*sync.Map).Range", func(fr *frame, args []value) value {
		m := syncMap(fr, ptr(args[0]))
		for _, e := range append([]*oentry(nil), m.entries...) {
			if e.deleted {
				continue
			}
			r := call(fr.i, fr, token.NoPos, args[1], []value{e.key, e.val})
			if b, ok := r.(bool); ok && !b {
				break
			}
		}
		return nil
	})
	reg("(*sync.Pool).Put", func(fr *frame, args []value) value {
		p := ptr(args[0])
		m := fr.i.pools[p]
		if m == nil {
			m = &poolModel{}
			fr.i.pools[p] = m
		}
		if it, ok := args[1].(iface); ok && it.t == nil {
			return nil
		}
		if fr.i.isolate {
			fr.i.release(args[1], 0)
		}
		m.items = append(m.items, args[1])
		return nil
	})

	// ---- context
	reg("context.WithCancel", func(fr *frame, args []value) value {
		ctx, cancel := fr.i.withCancel(args[0].(iface))
		return tuple{ctx, cancel}
	})
	reg("context.WithTimeout", func(fr *frame, args []value) value {
		ctx, cancel := fr.i.withCancel(args[0].(iface))
		return tuple{ctx, cancel}
	})
	reg("context.WithDeadline", func(fr *frame, args []value) value {
		ctx, cancel := fr.i.withCancel(args[0].(iface))
		return tuple{ctx, cancel}
	})
	reg("(*context.cancelCtx).Done", func(fr *frame, args []value) value {
		return fr.i.ctxOf(ptr(args[0])).done
	})
	reg("(*context.cancelCtx).Err", func(fr *frame, args []value) value {
		fr.i.sched.yield("ctx.Err")
		c := fr.i.ctxOf(ptr(args[0]))
		if c.err == nil {
			return iface{}
		}
		return c.err
	})
	reg("(*context.cancelCtx).Value", func(fr *frame, args []value) value {
		st := (*ptr(args[0])).(structure)
		parent := st[0].(iface)
		m := fr.i.findMethod(parent.t, "Value")
		return call(fr.i, fr, token.NoPos, m, []value{parent.v, args[1]})
	})
	reg("(*context.cancelCtx).String", func(fr *frame, args []value) value { return "context.WithCancel" })

	// ---- time
	reg("(time.Time).UnixMilli", func(fr *frame, args []value) value {
		st := args[0].(structure)
		if w, ok := st[0].(uint64); ok && w == symTimeWall {
			return st[1]
		}
		wall, ext := st[0].(uint64), st[1].(int64)
		return timeUnixMilli(wall, ext)
	})
	reg("github.com/prometheus/prometheus/model/timestamp.FromTime", func(fr *frame, args []value) value {
		st := args[0].(structure)
		if w, ok := st[0].(uint64); ok && w == symTimeWall {
			return st[1]
		}
		return timeUnixMilli(st[0].(uint64), st[1].(int64))
	})
	reg("github.com/prometheus/prometheus/model/timestamp.Time", func(fr *frame, args []value) value {
		return structure{symTimeWall, args[0], (*value)(nil)}
	})
	mkTime := func(ms value) value { return structure{symTimeWall, ms, (*value)(nil)} }
	timeMs := func(fr *frame, v value) value {
		st := v.(structure)
		if w, ok := st[0].(uint64); ok && w == symTimeWall {
			return st[1]
		}
		return timeUnixMilli(st[0].(uint64), st[1].(int64))
	}
	reg("time.Unix", func(fr *frame, args []value) value {
		sec, nsec := args[0].(int64), args[1].(int64)
		return mkTime(sec*1000 + nsec/1000000)
	})
	reg("time.UnixMilli", func(fr *frame, args []value) value { return mkTime(args[0]) })
	reg("(time.Time).UTC", func(fr *frame, args []value) value { return args[0] })
	reg("(time.Time).Local", func(fr *frame, args []value) value { return args[0] })
	reg("(time.Time).IsZero", func(fr *frame, args []value) value {
		st := args[0].(structure)
		if w, ok := st[0].(uint64); ok && w == symTimeWall {
			return false
		}
		return st[0].(uint64) == 0 && st[1].(int64) == 0
	})
	reg("(time.Time).Unix", func(fr *frame, args []value) value {
		ms, ok := timeMs(fr, args[0]).(int64)
		if !ok {
			panic(pathAbort{kind: abortUnsupported, msg: "(time.Time).Unix on symbolic time"})
		}
		q := ms / 1000
		if ms%1000 < 0 {
			q--
		}
		return q
	})
	reg("(time.Time).Nanosecond", func(fr *frame, args []value) value {
		ms, ok := timeMs(fr, args[0]).(int64)
		if !ok {
			panic(pathAbort{kind: abortUnsupported, msg: "(time.Time).Nanosecond on symbolic time"})
		}
		r := ms % 1000
		if r < 0 {
			r += 1000
		}
		return int(r * 1000000)
	})
	reg("(time.Time).UnixNano", func(fr *frame, args []value) value {
		return binop(fr.i, token.MUL, nil, timeMs(fr, args[0]), int64(1000000))
	})
	reg("(time.Time).Add", func(fr *frame, args []value) value {
		ms := timeMs(fr, args[0])
		dms := binop(fr.i, token.QUO, nil, args[1], int64(1000000))
		return mkTime(binop(fr.i, token.ADD, nil, ms, dms))
	})
	reg("(time.Time).Sub", func(fr *frame, args []value) value {
		d := binop(fr.i, token.SUB, nil, timeMs(fr, args[0]), timeMs(fr, args[1]))
		return binop(fr.i, token.MUL, nil, d, int64(1000000))
	})
	reg("(time.Time).Before", func(fr *frame, args []value) value {
		return binop(fr.i, token.LSS, nil, timeMs(fr, args[0]), timeMs(fr, args[1]))
	})
	reg("(time.Time).After", func(fr *frame, args []value) value {
		return binop(fr.i, token.GTR, nil, timeMs(fr, args[0]), timeMs(fr, args[1]))
	})
	reg("(time.Time).Equal", func(fr *frame, args []value) value {
		return binop(fr.i, token.EQL, nil, timeMs(fr, args[0]), timeMs(fr, args[1]))
	})
	reg("time.Now", func(fr *frame, args []value) value {
		// wall-clock is outside every claim: a fixed instant (only timers/statistics use it)
		return structure{symTimeWall, int64(0), (*value)(nil)}
	})
	reg("github.com/prometheus/prometheus/util/stats.NewSpanTimer", func(fr *frame, args []value) value {
		t := fr.i.prog.ImportedPackage("github.com/prometheus/prometheus/util/stats").Type("SpanTimer").Object().Type()
		var cell value = zero(t)
		return tuple{&cell, args[0]}
	})
	reg("(*github.com/prometheus/prometheus/util/stats.SpanTimer).Finish", func(fr *frame, args []value) value { return nil })
	reg("go.opentelemetry.io/otel/trace.SpanFromContext", func(fr *frame, args []value) value { return iface{} })
	reg("go.opentelemetry.io/otel.Tracer", func(fr *frame, args []value) value {
		t := fr.i.prog.ImportedPackage("go.opentelemetry.io/otel/trace").Type("noopTracer").Object().Type()
		return iface{t: t, v: zero(t)}
	})
	reg("(go.opentelemetry.io/otel/trace.noopTracer).Start", func(fr *frame, args []value) value {
		t := fr.i.prog.ImportedPackage("go.opentelemetry.io/otel/trace").Type("noopSpan").Object().Type()
		return tuple{args[1], iface{t: t, v: zero(t)}}
	})
	reg("reflect.TypeOf", func(fr *frame, args []value) value {
		it := args[0].(iface)
		name := "<nil>"
		if it.t != nil {
			name = types.TypeString(it.t, func(p *types.Package) string { return p.Name() })
		}
		t := fr.i.prog.ImportedPackage("reflect").Type("rtype").Object().Type()
		var cell value = structure{name}
		return iface{t: types.NewPointer(t), v: &cell}
	})
	reg("(*reflect.rtype).String", func(fr *frame, args []value) value {
		return (*ptr(args[0])).(structure)[0].(string)
	})
	reg("time.Since", func(fr *frame, args []value) value { return int64(0) })

	// ---- prometheus value.IsStaleNaN
	reg("github.com/prometheus/prometheus/model/value.IsStaleNaN", func(fr *frame, args []value) value {
		switch x := args[0].(type) {
		case float64:
			return math.Float64bits(x) == staleNaNBits
		case symFloat:
			if x.stale == nil {
				return false
			}
			return mkBool(x.stale)
		}
		panic("IsStaleNaN arg")
	})
	reg("math.Float64bits", func(fr *frame, args []value) value {
		f, ok := args[0].(float64)
		if !ok {
			panic(pathAbort{kind: abortUnsupported, msg: "math.Float64bits of a symbolic float"})
		}
		return math.Float64bits(f)
	})
	reg("math.Float64frombits", func(fr *frame, args []value) value {
		b, ok := args[0].(uint64)
		if !ok {
			panic(pathAbort{kind: abortUnsupported, msg: "math.Float64frombits of a symbolic value"})
		}
		return math.Float64frombits(b)
	})
	registerMath()
	registerSym()
}

const symTimeWall = uint64(0x2AAA000000000000)

func timeUnixMilli(wall uint64, ext int64) int64 {
	// mirror of time.Time.UnixMilli for non-monotonic times built by time.Unix etc.
	const hasMonotonic = 1 << 63
	const nsecMask = 1<<30 - 1
	const unixToInternal int64 = (1969*365 + 1969/4 - 1969/100 + 1969/400) * 86400
	const wallToInternal int64 = (1884*365 + 1884/4 - 1884/100 + 1884/400) * 86400
	var sec int64
	if wall&hasMonotonic != 0 {
		sec = wallToInternal + int64(wall<<1>>(30+1))
	} else {
		sec = ext
	}
	nsec := int32(wall & nsecMask)
	return (sec-unixToInternal)*1e3 + int64(nsec)/1e6
}

func sortSlice(fr *frame, args []value, stable bool) {
	it := args[0].(iface)
	x := it.v.([]value)
	less := args[1]
	// insertion sort (stable); calls the interpreted less function on indices, so the
	// slice must be permuted in place like sort.Slice does.
	for a := 1; a < len(x); a++ {
		for b := a; b > 0; b-- {
			r := call(fr.i, fr, token.NoPos, less, []value{b, b - 1})
			var lt bool
			switch r := r.(type) {
			case bool:
				lt = r
			case symBool:
				lt = fr.i.path.branch(r.t, "sort.less")
			}
			if !lt {
				break
			}
			x[b], x[b-1] = x[b-1], x[b]
		}
	}
}

// ---- errors.Is / Unwrap by interpretation of the chain

func (i *interpreter) errorsUnwrap(fr *frame, e iface) value {
	if e.t == nil {
		return iface{}
	}
	m := i.findMethod(e.t, "Unwrap")
	if m == nil || m.Signature.Results().Len() != 1 {
		return iface{}
	}
	if _, ok := m.Signature.Results().At(0).Type().Underlying().(*types.Interface); !ok {
		return iface{}
	}
	return call(i, fr, token.NoPos, m, []value{e.v})
}

func (i *interpreter) errorsIs(fr *frame, err, target iface) bool {
	if target.t == nil {
		return err.t == nil
	}
	for n := 0; n < 64 && err.t != nil; n++ {
		if types.Comparable(err.t) && sameType(err.t, target.t) && equals(err.t, err.v, target.v) {
			return true
		}
		if m := i.findMethod(err.t, "Is"); m != nil && m.Signature.Params().Len() == 1 {
			if r, ok := call(i, fr, token.NoPos, m, []value{err.v, target}).(bool); ok && r {
				return true
			}
		}
		u := i.errorsUnwrap(fr, err)
		next, ok := u.(iface)
		if !ok {
			return false
		}
		err = next
	}
	return false
}

// ---- context helpers

func (i *interpreter) ctxOf(p *value) *ctxModel {
	for _, c := range i.ctxs {
		if c.cell == p {
			return c
		}
	}
	panic(pathAbort{kind: abortInternal, msg: "unknown context object"})
}

func (i *interpreter) ctxModelOfIface(ctx iface) *ctxModel {
	if p, ok := ctx.v.(*value); ok {
		for _, c := range i.ctxs {
			if c.cell == p {
				return c
			}
		}
	}
	return nil
}

func (i *interpreter) withCancel(parent iface) (value, value) {
	pm := i.ctxModelOfIface(parent)
	if pm == nil && parent.t != nil {
		// walk through value contexts etc.: not modelled, treat as root
	}
	c := i.newCtx(pm, true)
	pkg := i.prog.ImportedPackage("context")
	t := pkg.Type("cancelCtx").Object().Type()
	st := zero(t).(structure)
	st[0] = parent
	var cell value = st
	c.cell = &cell
	ctx := iface{t: types.NewPointer(t), v: &cell}
	canceled := *i.global(pkg.Var("Canceled"))
	cancel := &nativeFunc{name: "context.cancel", f: func(fr *frame, args []value) value {
		fr.i.sched.yield("cancel")
		fr.i.cancelCtx(c, canceled)
		return nil
	}}
	return ctx, cancel
}

// ---- math

func f1(name string, nat func(float64) float64, sym func(*smt.Term) *smt.Term) {
	reg("math."+name, func(fr *frame, args []value) value {
		switch x := args[0].(type) {
		case float64:
			return nat(x)
		case symFloat:
			if sym != nil {
				return mkFloat(sym(x.t), nil)
			}
			return mkFloat(smt.UF("math."+name, smt.SFP, x.t), nil)
		}
		panic("math arg")
	})
}

func f2(name string, nat func(float64, float64) float64, sym func(a, b *smt.Term) *smt.Term) {
	reg("math."+name, func(fr *frame, args []value) value {
		x, xok := args[0].(float64)
		y, yok := args[1].(float64)
		if xok && yok {
			return nat(x, y)
		}
		a, _ := floatTerm(args[0])
		b, _ := floatTerm(args[1])
		if sym != nil {
			return mkFloat(sym(a, b), nil)
		}
		return mkFloat(smt.UF("math."+name, smt.SFP, a, b), nil)
	})
}

func symMax(a, b *smt.Term) *smt.Term {
	if smt.RealMode {
		return smt.Ite(smt.FGt(a, b), a, b)
	}
	// math.Max special cases: +Inf wins, NaN propagates, Max(+0,-0)=+0
	inf := smt.FPConst(math.Inf(1))
	nan := smt.FPConst(math.NaN())
	return smt.Ite(smt.Or(smt.Eq(a, inf), smt.Eq(b, inf)), inf,
		smt.Ite(smt.Or(smt.FIsNaN(a), smt.FIsNaN(b)), nan,
			smt.Ite(smt.And(smt.FIsZero(a), smt.FIsZero(b)),
				smt.Ite(smt.FIsNeg(a), b, a),
				smt.Ite(smt.FGt(a, b), a, b))))
}

func symMin(a, b *smt.Term) *smt.Term {
	if smt.RealMode {
		return smt.Ite(smt.FLt(a, b), a, b)
	}
	ninf := smt.FPConst(math.Inf(-1))
	nan := smt.FPConst(math.NaN())
	return smt.Ite(smt.Or(smt.Eq(a, ninf), smt.Eq(b, ninf)), ninf,
		smt.Ite(smt.Or(smt.FIsNaN(a), smt.FIsNaN(b)), nan,
			smt.Ite(smt.And(smt.FIsZero(a), smt.FIsZero(b)),
				smt.Ite(smt.FIsNeg(a), a, b),
				smt.Ite(smt.FLt(a, b), a, b))))
}

func registerMath() {
	f1("Abs", math.Abs, smt.FAbs)
	reg("math.Sqrt", func(fr *frame, args []value) value {
		switch x := args[0].(type) {
		case float64:
			return math.Sqrt(x)
		case symFloat:
			if !smt.RealMode {
				return mkFloat(smt.FSqrt(x.t), nil)
			}
			// exact reals: y with y >= 0 and y*y = x (one witness per argument term);
			// negative arguments have no real square root (NaN): outside real mode's domain
			p := fr.i.path
			if p.sqrtMemo == nil {
				p.sqrtMemo = map[int]*smt.Term{}
			}
			if y, ok := p.sqrtMemo[x.t.ID()]; ok {
				return symFloat{y, nil}
			}
			zero := smt.FPConst(0)
			if p.branch(smt.FLt(x.t, zero), "sqrt-negative") {
				panic(pathAbort{kind: abortUnsupported, msg: "sqrt of a negative number under the exact-real interpretation"})
			}
			y := smt.Var(fmt.Sprintf("sqrt!%d", len(p.sqrtMemo)), smt.SFP)
			p.assume(smt.And(smt.FLe(zero, y), smt.Eq(smt.FMul(y, y), x.t)))
			p.sqrtMemo[x.t.ID()] = y
			return symFloat{y, nil}
		}
		panic("math.Sqrt arg")
	})
	f1("Floor", math.Floor, func(a *smt.Term) *smt.Term { return smt.FRound("RTN", a) })
	f1("Ceil", math.Ceil, func(a *smt.Term) *smt.Term { return smt.FRound("RTP", a) })
	f1("Trunc", math.Trunc, func(a *smt.Term) *smt.Term { return smt.FRound("RTZ", a) })
	f1("RoundToEven", math.RoundToEven, func(a *smt.Term) *smt.Term { return smt.FRound("RNE", a) })
	f1("Round", math.Round, nil)
	for name, fn := range map[string]func(float64) float64{
		"Exp": math.Exp, "Exp2": math.Exp2, "Expm1": math.Expm1, "Log": math.Log, "Log2": math.Log2, "Log10": math.Log10, "Log1p": math.Log1p,
		"Sin": math.Sin, "Cos": math.Cos, "Tan": math.Tan, "Asin": math.Asin, "Acos": math.Acos, "Atan": math.Atan,
		"Sinh": math.Sinh, "Cosh": math.Cosh, "Tanh": math.Tanh, "Asinh": math.Asinh, "Acosh": math.Acosh, "Atanh": math.Atanh,
		"Cbrt": math.Cbrt, "Gamma": math.Gamma, "Erf": math.Erf,
	} {
		f1(name, fn, nil)
	}
	f2("Max", math.Max, symMax)
	f2("Min", math.Min, symMin)
	f2("Pow", math.Pow, nil)
	f2("Mod", math.Mod, nil)
	f2("Atan2", math.Atan2, nil)
	f2("Hypot", math.Hypot, nil)
	f2("Copysign", math.Copysign, nil)
	f2("Remainder", math.Remainder, nil)
	reg("math.IsNaN", func(fr *frame, args []value) value {
		switch x := args[0].(type) {
		case float64:
			return x != x
		case symFloat:
			return mkBool(smt.FIsNaN(x.t))
		}
		panic("IsNaN arg")
	})
	reg("math.IsInf", func(fr *frame, args []value) value {
		sign := args[1].(int)
		switch x := args[0].(type) {
		case float64:
			return math.IsInf(x, sign)
		case symFloat:
			if smt.RealMode {
				return false
			}
			switch {
			case sign > 0:
				return mkBool(smt.Eq(x.t, smt.FPConst(math.Inf(1))))
			case sign < 0:
				return mkBool(smt.Eq(x.t, smt.FPConst(math.Inf(-1))))
			}
			return mkBool(smt.FIsInf(x.t))
		}
		panic("IsInf arg")
	})
	reg("math.Inf", func(fr *frame, args []value) value { return math.Inf(args[0].(int)) })
	reg("math.NaN", func(fr *frame, args []value) value { return math.NaN() })
	reg("math.Signbit", func(fr *frame, args []value) value {
		switch x := args[0].(type) {
		case float64:
			return math.Signbit(x)
		case symFloat:
			// sign bit of NaN is unspecified in SMT; treat NaN as positive (Go's math.NaN())
			return mkBool(smt.And(smt.Not(smt.FIsNaN(x.t)), smt.FIsNeg(x.t)))
		}
		panic("Signbit arg")
	})
	reg("math.Modf", func(fr *frame, args []value) value {
		f, ok := args[0].(float64)
		if !ok {
			panic(pathAbort{kind: abortUnsupported, msg: "math.Modf symbolic"})
		}
		a, b := math.Modf(f)
		return tuple{a, b}
	})
	reg("math.Frexp", func(fr *frame, args []value) value {
		f, ok := args[0].(float64)
		if !ok {
			panic(pathAbort{kind: abortUnsupported, msg: "math.Frexp symbolic"})
		}
		a, b := math.Frexp(f)
		return tuple{a, b}
	})
}

// findMethod returns the implementation of the exported method name on type t, or nil.
func (i *interpreter) findMethod(t types.Type, name string) *ssa.Function {
	sel := i.prog.MethodSets.MethodSet(t).Lookup(nil, name)
	if sel == nil {
		return nil
	}
	return i.prog.MethodValue(sel)
}

var promDurationRE = regexp.MustCompile("^(([0-9]+)y)?(([0-9]+)w)?(([0-9]+)d)?(([0-9]+)h)?(([0-9]+)m)?(([0-9]+)s)?(([0-9]+)ms)?$")

func parsePromDuration(s string) (int64, error) {
	switch s {
	case "0":
		return 0, nil
	case "":
		return 0, fmt.Errorf("empty duration string")
	}
	m := promDurationRE.FindStringSubmatch(s)
	if m == nil {
		return 0, fmt.Errorf("not a valid duration string: %q", s)
	}
	var dur int64
	add := func(pos int, mult int64) error {
		if m[pos] == "" {
			return nil
		}
		n, _ := strconv.Atoi(m[pos])
		dur += int64(n) * mult
		return nil
	}
	const ms = int64(1000000)
	add(2, 1000*60*60*24*365*ms)
	add(4, 1000*60*60*24*7*ms)
	add(6, 1000*60*60*24*ms)
	add(8, 1000*60*60*ms)
	add(10, 1000*60*ms)
	add(12, 1000*ms)
	add(14, ms)
	if dur < 0 {
		return 0, fmt.Errorf("duration out of range")
	}
	return dur, nil
}
