package interp

// Insertion-ordered hash map: deterministic iteration order (required for
// decision-prefix replay). Keys are concrete interpreter values.

import "go/types"

type hashable interface {
	hash(t types.Type) int
	eq(t types.Type, x interface{}) bool
}

type oentry struct {
	key     value
	val     value
	deleted bool
}

type omap struct {
	keyType types.Type
	entries []*oentry
	index   map[int][]*oentry
	length  int
}

func makeMap(kt types.Type, reserve int64) value {
	return &omap{keyType: kt, index: make(map[int][]*oentry)}
}

func (m *omap) find(k value) *oentry {
	if m == nil {
		return nil
	}
	mustConcrete(k, "map key")
	h := hash(m.keyType, m.keyType, k)
	for _, e := range m.index[h] {
		if !e.deleted && equals(m.keyType, e.key, k) {
			return e
		}
	}
	return nil
}

func (m *omap) lookup(k value) (value, bool) {
	if e := m.find(k); e != nil {
		return copyValue(e.val), true
	}
	return nil, false
}

func (m *omap) insert(k, v value) {
	if m == nil {
		panic(targetPanicString("assignment to entry in nil map"))
	}
	if e := m.find(k); e != nil {
		e.val = copyValue(v)
		return
	}
	h := hash(m.keyType, m.keyType, k)
	e := &oentry{key: copyValue(k), val: copyValue(v)}
	m.entries = append(m.entries, e)
	m.index[h] = append(m.index[h], e)
	m.length++
}

func (m *omap) delete(k value) {
	if e := m.find(k); e != nil {
		e.deleted = true
		m.length--
		h := hash(m.keyType, m.keyType, k)
		b := m.index[h]
		for i, x := range b {
			if x == e {
				m.index[h] = append(b[:i:i], b[i+1:]...)
				break
			}
		}
	}
}

func (m *omap) len() int {
	if m == nil {
		return 0
	}
	return m.length
}

// omapIter iterates in insertion order; entries added during iteration are
// visited (permitted by the Go spec), deleted ones are skipped.
type omapIter struct {
	m *omap
	i int
}

func (it *omapIter) next() tuple {
	if it.m != nil {
		for it.i < len(it.m.entries) {
			e := it.m.entries[it.i]
			it.i++
			if !e.deleted {
				return tuple{true, copyValue(e.key), copyValue(e.val)}
			}
		}
	}
	return tuple{false, nil, nil}
}
