// Copyright 2013 The Go Authors. All rights reserved.
// Use of this source code is governed by a BSD-style
// license that can be found in the LICENSE file.

// Package interp is a mixed concrete/symbolic interpreter for go/ssa, derived from
// golang.org/x/tools/go/ssa/interp (BSD licence, see above). Heap structure is
// concrete; scalars may be SMT terms; branches on symbolic conditions fork the path
// (decision-prefix replay); goroutines are coroutines under a deterministic scheduler.
package interp

import (
	"fmt"
	"go/token"
	"go/types"
	"os"
	"runtime"
	"slices"
	"strings"

	"golang.org/x/tools/go/ssa"

	"gosym/smt"
)

type continuation int

const (
	kNext continuation = iota
	kReturn
	kJump
)

// World is the immutable per-run state shared by all paths and workers.
type World struct {
	Prog      *ssa.Program
	InitAllow func(pkgPath string) bool // packages whose init is interpreted
	Linknames map[string]string         // "pkgpath.local" -> "pkgpath.target"
	Trace     bool
	fnCache   map[string]*ssa.Function
	rtErrType types.Type
}

// interpreter is the per-path state.
type interpreter struct {
	w        *World
	prog     *ssa.Program
	globals  map[*ssa.Global]*value
	initDone map[*ssa.Package]bool
	path     *pathState
	sched    *scheduler
	steps    int64
	maxSteps int64

	// side tables for modelled std types, keyed by object address
	onces       map[*value]*onceModel
	mutexes     map[*value]*mutexModel
	wgs         map[*value]*wgModel
	pools       map[*value]*poolModel
	syncMaps    map[*value]*omap
	ctxs        []*ctxModel
	ro          []roRegion
	counters    map[string]int
	nextID      int
	fnSeen      map[*ssa.Function]bool
	isolate     bool
	disabledExt map[string]bool
	cellOwner   map[*value]int
	mapOwner    map[*omap]int
}

type deferred struct {
	fn    value
	args  []value
	instr *ssa.Defer
	tail  *deferred
}

type frame struct {
	i                *interpreter
	g                *gor
	caller           *frame
	fn               *ssa.Function
	block, prevBlock *ssa.BasicBlock
	env              map[ssa.Value]value // dynamic values of SSA variables
	locals           []value
	defers           *deferred
	result           value
	panicking        bool
	panic            interface{}
	phitemps         []value // temporaries for parallel phi assignment
	callpos          token.Pos
}

func mustDeref(t types.Type) types.Type {
	if p, ok := t.Underlying().(*types.Pointer); ok {
		return p.Elem()
	}
	panic(fmt.Sprintf("mustDeref: %s is not a pointer", t))
}

func coreType(t types.Type) types.Type { return t.Underlying() }

func (fr *frame) get(key ssa.Value) value {
	switch key := key.(type) {
	case nil:
		return nil
	case *ssa.Function, *ssa.Builtin:
		return key
	case *ssa.Const:
		return constValue(key)
	case *ssa.Global:
		return fr.i.global(key)
	}
	if r, ok := fr.env[key]; ok {
		return r
	}
	panic(fmt.Sprintf("get: no value for %T: %v", key, key.Name()))
}

// global returns the address of a package-level variable, initialising its package
// lazily.
func (i *interpreter) global(g *ssa.Global) *value {
	if r, ok := i.globals[g]; ok {
		return r
	}
	pkg := g.Pkg
	cell := zero(mustDeref(g.Type()))
	addr := &cell
	// allocate all globals of the package first, then run its init
	if !i.initDone[pkg] {
		i.initDone[pkg] = true
		for _, m := range pkg.Members {
			if gg, ok := m.(*ssa.Global); ok {
				if _, ok := i.globals[gg]; !ok {
					c := zero(mustDeref(gg.Type()))
					i.globals[gg] = &c
				}
			}
		}
		if i.w.InitAllow(pkg.Pkg.Path()) {
			if i.w.Trace {
				fmt.Fprintf(os.Stderr, "init %s\n", pkg.Pkg.Path())
			}
			call(i, i.curFrame(), token.NoPos, pkg.Func("init"), nil)
		} else if ov, ok := globalOverride(i, g); ok {
			*i.globals[g] = ov
		} else if !strings.HasSuffix(g.Name(), "init$guard") {
			panic(pathAbort{kind: abortUnsupported, msg: "global of uninitialised package: " + g.String() + i.where()})
		}
		return i.globals[g]
	}
	if r, ok := i.globals[g]; ok {
		return r
	}
	if !i.w.InitAllow(pkg.Pkg.Path()) {
		if ov, ok := globalOverride(i, g); ok {
			*addr = ov
			i.globals[g] = addr
			return addr
		}
		if !strings.HasSuffix(g.Name(), "init$guard") {
			panic(pathAbort{kind: abortUnsupported, msg: "global of uninitialised package: " + g.String() + i.where()})
		}
	}
	i.globals[g] = addr
	return addr
}

func (i *interpreter) where() string {
	s := " [in"
	n := 0
	for f := i.curFrame(); f != nil && n < 8; f = f.caller {
		s += " < " + f.fn.String()
		n++
	}
	return s + "]"
}

func (i *interpreter) whereShort() string {
	f := i.curFrame()
	for f != nil && (f.fn.Pkg == nil || !strings.HasPrefix(f.fn.Pkg.Pkg.Path(), "github.com/thanos-community/promql-engine") || strings.Contains(f.fn.Pkg.Pkg.Path(), "zzverif")) {
		f = f.caller
	}
	if f == nil {
		return ""
	}
	return " in " + f.fn.String()
}

func (i *interpreter) curFrame() *frame {
	if i.sched != nil && i.sched.cur != nil {
		return i.sched.cur.top
	}
	return nil
}

// runDefer runs a deferred call d.
// It always returns normally, but may set or clear fr.panic.
func (fr *frame) runDefer(d *deferred) {
	var ok bool
	defer func() {
		if !ok {
			// Deferred call created a new state of panic.
			p := recover()
			if isControl(p) {
				panic(p)
			}
			fr.panicking = true
			fr.panic = p
		}
	}()
	call(fr.i, fr, d.instr.Pos(), d.fn, d.args)
	ok = true
}

// runDefers executes fr's deferred function calls in LIFO order.
func (fr *frame) runDefers() {
	for d := fr.defers; d != nil; d = d.tail {
		fr.runDefer(d)
	}
	fr.defers = nil
	if fr.panicking {
		panic(fr.panic) // new panic, or still panicking
	}
}

func lookupMethod(i *interpreter, typ types.Type, meth *types.Func) *ssa.Function {
	return i.prog.LookupMethod(typ, meth.Pkg(), meth.Name())
}

func (fr *frame) concInt(v value, what string) int64 {
	if s, ok := v.(symInt); ok {
		return fr.i.path.concretize(s, what)
	}
	return asInt64(v)
}

// visitInstr interprets a single ssa.Instruction within the activation
// record frame.
func visitInstr(fr *frame, instr ssa.Instruction) continuation {
	i := fr.i
	i.steps++
	if i.steps > i.maxSteps {
		panic(pathAbort{kind: abortBound, msg: "instruction budget exhausted"})
	}
	switch instr := instr.(type) {
	case *ssa.DebugRef:
		// no-op

	case *ssa.UnOp:
		if i.isolate && instr.Op == token.MUL {
			if p, ok := fr.get(instr.X).(*value); ok && p != nil {
				i.noteRead(fr, p, instr)
			}
		}
		fr.env[instr] = unop(fr, instr, fr.get(instr.X))

	case *ssa.BinOp:
		fr.env[instr] = binop(i, instr.Op, instr.X.Type(), fr.get(instr.X), fr.get(instr.Y))

	case *ssa.Call:
		fn, args := prepareCall(fr, &instr.Call)
		fr.env[instr] = call(fr.i, fr, instr.Pos(), fn, args)

	case *ssa.ChangeInterface:
		fr.env[instr] = fr.get(instr.X)

	case *ssa.ChangeType:
		fr.env[instr] = fr.get(instr.X) // (can't fail)

	case *ssa.Convert:
		fr.env[instr] = conv(i, instr.Type(), instr.X.Type(), fr.get(instr.X))

	case *ssa.SliceToArrayPointer:
		fr.env[instr] = sliceToArrayPointer(instr.Type(), instr.X.Type(), fr.get(instr.X))

	case *ssa.MakeInterface:
		fr.env[instr] = iface{t: instr.X.Type(), v: fr.get(instr.X)}

	case *ssa.Extract:
		fr.env[instr] = fr.get(instr.Tuple).(tuple)[instr.Index]

	case *ssa.Slice:
		lo, hi, max := fr.get(instr.Low), fr.get(instr.High), fr.get(instr.Max)
		if isSym(lo) {
			lo = fr.concInt(lo, "slice low")
		}
		if isSym(hi) {
			hi = fr.concInt(hi, "slice high")
		}
		if isSym(max) {
			max = fr.concInt(max, "slice max")
		}
		fr.env[instr] = slice(fr.get(instr.X), lo, hi, max)

	case *ssa.Return:
		switch len(instr.Results) {
		case 0:
		case 1:
			fr.result = fr.get(instr.Results[0])
		default:
			var res []value
			for _, r := range instr.Results {
				res = append(res, fr.get(r))
			}
			fr.result = tuple(res)
		}
		fr.block = nil
		return kReturn

	case *ssa.RunDefers:
		fr.runDefers()

	case *ssa.Panic:
		panic(targetPanic{fr.get(instr.X)})

	case *ssa.Send:
		i.chanSend(fr.get(instr.Chan).(*channel), fr.get(instr.X))

	case *ssa.Store:
		addr := fr.get(instr.Addr).(*value)
		if len(i.ro) > 0 {
			i.checkWrite(addr, instr)
		}
		if addr == nil {
			panic(targetPanicString("runtime error: invalid memory address or nil pointer dereference"))
		}
		if i.isolate {
			i.noteWrite(fr, addr, instr)
		}
		store(mustDeref(instr.Addr.Type()), addr, fr.get(instr.Val))

	case *ssa.If:
		succ := 1
		switch c := fr.get(instr.Cond).(type) {
		case bool:
			if c {
				succ = 0
			}
		case symBool:
			if i.path.branch(c.t, "") {
				succ = 0
			}
		default:
			panic(fmt.Sprintf("If on %T", c))
		}
		fr.prevBlock, fr.block = fr.block, fr.block.Succs[succ]
		return kJump

	case *ssa.Jump:
		fr.prevBlock, fr.block = fr.block, fr.block.Succs[0]
		return kJump

	case *ssa.Defer:
		fn, args := prepareCall(fr, &instr.Call)
		defers := &fr.defers
		if into := fr.get(instr.DeferStack); into != nil {
			defers = into.(**deferred)
		}
		*defers = &deferred{
			fn:    fn,
			args:  args,
			instr: instr,
			tail:  *defers,
		}

	case *ssa.Go:
		fn, args := prepareCall(fr, &instr.Call)
		i.sched.spawn(i, fn, args, instr.Pos())

	case *ssa.MakeChan:
		fr.env[instr] = i.newChannel(int(fr.concInt(fr.get(instr.Size), "chan size")))

	case *ssa.Alloc:
		var addr *value
		if instr.Heap {
			// new
			addr = new(value)
			fr.env[instr] = addr
		} else {
			// local
			addr = fr.env[instr].(*value)
		}
		*addr = zero(mustDeref(instr.Type()))

	case *ssa.MakeSlice:
		c := fr.concInt(fr.get(instr.Cap), "make cap")
		l := fr.concInt(fr.get(instr.Len), "make len")
		if l < 0 || c < l || c > 1<<24 {
			panic(targetPanicString("runtime error: makeslice: len out of range"))
		}
		slice := make([]value, c)
		tElt := instr.Type().Underlying().(*types.Slice).Elem()
		for i := range slice {
			slice[i] = zero(tElt)
		}
		fr.env[instr] = slice[:l]

	case *ssa.MakeMap:
		fr.env[instr] = makeMap(instr.Type().Underlying().(*types.Map).Key(), 0)

	case *ssa.Range:
		fr.env[instr] = rangeIter(fr.get(instr.X), instr.X.Type())

	case *ssa.Next:
		fr.env[instr] = fr.get(instr.Iter).(iter).next()

	case *ssa.FieldAddr:
		p := fr.get(instr.X).(*value)
		if p == nil {
			panic(targetPanicString("runtime error: invalid memory address or nil pointer dereference"))
		}
		fr.env[instr] = &(*p).(structure)[instr.Field]

	case *ssa.Field:
		fr.env[instr] = fr.get(instr.X).(structure)[instr.Field]

	case *ssa.IndexAddr:
		x := fr.get(instr.X)
		idx := fr.get(instr.Index)
		switch x := x.(type) {
		case []value:
			n := fr.idx(idx, len(x))
			fr.env[instr] = &x[n]
		case *value: // *array
			if x == nil {
				panic(targetPanicString("runtime error: invalid memory address or nil pointer dereference"))
			}
			a := (*x).(array)
			n := fr.idx(idx, len(a))
			fr.env[instr] = &a[n]
		default:
			panic(fmt.Sprintf("unexpected x type in IndexAddr: %T", x))
		}

	case *ssa.Index:
		x := fr.get(instr.X)
		idx := fr.get(instr.Index)

		switch x := x.(type) {
		case array:
			fr.env[instr] = x[fr.idx(idx, len(x))]
		case string:
			fr.env[instr] = x[fr.idx(idx, len(x))]
		default:
			panic(fmt.Sprintf("unexpected x type in Index: %T", x))
		}

	case *ssa.Lookup:
		x := fr.get(instr.X)
		if s, ok := x.(string); ok {
			fr.env[instr] = s[fr.idx(fr.get(instr.Index), len(s))]
		} else {
			if m, ok := x.(*omap); ok && i.isolate && m != nil {
				i.noteMap(fr, m, false, instr)
			}
			fr.env[instr] = lookup(instr, x, fr.get(instr.Index))
		}

	case *ssa.MapUpdate:
		m := fr.get(instr.Map)
		key := fr.get(instr.Key)
		v := fr.get(instr.Value)
		switch m := m.(type) {
		case *omap:
			if i.isolate {
				i.noteMap(fr, m, true, instr)
			}
			m.insert(key, v)
		default:
			panic(fmt.Sprintf("illegal map type: %T", m))
		}

	case *ssa.TypeAssert:
		fr.env[instr] = typeAssert(fr.i, instr, fr.get(instr.X).(iface))

	case *ssa.MakeClosure:
		var bindings []value
		for _, binding := range instr.Bindings {
			bindings = append(bindings, fr.get(binding))
		}
		fr.env[instr] = &closure{instr.Fn.(*ssa.Function), bindings}

	case *ssa.Phi:
		panic("unreachable: phi") // phis are processed at block entry

	case *ssa.Select:
		fr.env[instr] = i.doSelect(fr, instr)

	default:
		panic(fmt.Sprintf("unexpected instruction: %T", instr))
	}
	return kNext
}

// idx evaluates an index against length n, forking on symbolic indices and raising
// the Go runtime panic when out of range.
func (fr *frame) idx(v value, n int) int64 {
	var k int64
	if s, ok := v.(symInt); ok {
		// out-of-range branch first
		inRange := smt.And(smt.Le(smt.IntConst(0), s.t), smt.Lt(s.t, smt.IntConst(int64(n))))
		if !fr.i.path.branch(inRange, "index") {
			panic(targetPanicString(fmt.Sprintf("runtime error: index out of range [symbolic] with length %d", n)))
		}
		k = fr.i.path.concretize(s, "index")
	} else {
		k = asInt64(v)
	}
	if k < 0 || k >= int64(n) {
		panic(targetPanicString(fmt.Sprintf("runtime error: index out of range [%d] with length %d", k, n)))
	}
	return k
}

func prepareCall(fr *frame, call *ssa.CallCommon) (fn value, args []value) {
	v := fr.get(call.Value)
	if call.Method == nil {
		// Function call.
		fn = v
	} else {
		// Interface method invocation.
		recv := v.(iface)
		if recv.t == nil {
			panic(targetPanicString("runtime error: invalid memory address or nil pointer dereference (method on nil interface)"))
		}
		if f := lookupMethod(fr.i, recv.t, call.Method); f == nil {
			// Unreachable in well-typed programs.
			panic(fmt.Sprintf("method set for dynamic type %v does not contain %s", recv.t, call.Method))
		} else {
			fn = f
		}
		args = append(args, recv.v)
	}
	for _, arg := range call.Args {
		args = append(args, fr.get(arg))
	}
	return
}

func call(i *interpreter, caller *frame, callpos token.Pos, fn value, args []value) value {
	switch fn := fn.(type) {
	case *ssa.Function:
		if fn == nil {
			panic(targetPanicString("runtime error: invalid memory address or nil pointer dereference (call of nil func)"))
		}
		return callSSA(i, caller, callpos, fn, args, nil)
	case *closure:
		return callSSA(i, caller, callpos, fn.Fn, args, fn.Env)
	case *ssa.Builtin:
		return callBuiltin(caller, callpos, fn, args)
	case *nativeFunc:
		return fn.f(caller, args)
	}
	panic(fmt.Sprintf("cannot call %T", fn))
}

func loc(fset *token.FileSet, pos token.Pos) string {
	if pos == token.NoPos {
		return ""
	}
	return " at " + fset.Position(pos).String()
}

func callSSA(i *interpreter, caller *frame, callpos token.Pos, fn *ssa.Function, args []value, env []value) value {
	fr := &frame{
		i:       i,
		caller:  caller, // for panic/recover
		fn:      fn,
		callpos: callpos,
	}
	if caller != nil {
		fr.g = caller.g
	} else if i.sched != nil {
		fr.g = i.sched.cur
	}
	name := fn.String()
	if ext := externals[name]; ext != nil && !i.disabledExt[name] {
		if i.w.Trace {
			fmt.Fprintf(os.Stderr, "ext %s\n", name)
		}
		return ext(fr, args)
	}
	if fn.Parent() == nil && fn.Pkg != nil && fn.Name() == "init" && fn.Signature.Recv() == nil && fn == fn.Pkg.Func("init") {
		// package initialiser
		if !i.w.InitAllow(fn.Pkg.Pkg.Path()) {
			return nil
		}
		if !i.initDone[fn.Pkg] {
			i.initDone[fn.Pkg] = true
			for _, m := range fn.Pkg.Members {
				if gg, ok := m.(*ssa.Global); ok {
					if _, ok := i.globals[gg]; !ok {
						c := zero(mustDeref(gg.Type()))
						i.globals[gg] = &c
					}
				}
			}
		}
	}
	if fn.Blocks == nil {
		if tgt := i.w.linkTarget(fn); tgt != nil {
			return callSSA(i, caller, callpos, tgt, args, env)
		}
		if gen := genericExternal(fn); gen != nil {
			return gen(fr, args)
		}
		panic(pathAbort{kind: abortUnsupported, msg: "no code for function: " + name})
	}
	if deny := deniedPackage(fn); deny != "" {
		panic(pathAbort{kind: abortUnsupported, msg: "call into unmodelled package function: " + name})
	}

	// generic function body?
	if fn.TypeParams().Len() > 0 && len(fn.TypeArgs()) == 0 {
		panic("interp requires ssa.BuilderMode to include InstantiateGenerics to execute generics")
	}
	if i.w.Trace {
		fmt.Fprintf(os.Stderr, "%senter %s\n", strings.Repeat(" ", depth(fr)), name)
	}
	if !i.fnSeen[fn] {
		i.fnSeen[fn] = true
		if fn.Pkg != nil {
			pp := fn.Pkg.Pkg.Path()
			if (strings.HasPrefix(pp, "github.com/thanos-community/promql-engine") && !strings.Contains(pp, "/zzverif/")) ||
				strings.HasPrefix(pp, "github.com/prometheus/prometheus") || strings.HasPrefix(pp, "gonum.org") {
				if !strings.Contains(fn.Name(), "Verif") && !strings.HasPrefix(fn.Name(), "init") {
					i.path.res.Funcs[name] = true
				}
			}
		}
	}

	prevTop := (*frame)(nil)
	if fr.g != nil {
		prevTop = fr.g.top
		fr.g.top = fr
		defer func() { fr.g.top = prevTop }()
	}

	fr.env = make(map[ssa.Value]value)
	fr.block = fn.Blocks[0]
	fr.locals = make([]value, len(fn.Locals))
	for i, l := range fn.Locals {
		fr.locals[i] = zero(mustDeref(l.Type()))
		fr.env[l] = &fr.locals[i]
	}
	for i, p := range fn.Params {
		fr.env[p] = args[i]
	}
	for i, fv := range fn.FreeVars {
		fr.env[fv] = env[i]
	}
	for fr.block != nil {
		runFrame(fr)
	}
	return fr.result
}

func depth(fr *frame) int {
	n := 0
	for f := fr; f != nil; f = f.caller {
		n++
	}
	return n
}

// isControl reports whether a recovered Go panic value is interpreter control flow
// (path abort, kill) rather than a target panic.
func isControl(p interface{}) bool {
	switch p.(type) {
	case pathAbort, killed:
		return true
	}
	return false
}

// classify turns an arbitrary recovered Go panic into either a target panic value
// or an interpreter-internal error (which aborts the path as inconclusive).
func classifyPanic(p interface{}) interface{} {
	switch p := p.(type) {
	case targetPanic, rtError:
		return p
	case runtime.Error:
		msg := p.Error()
		if strings.Contains(msg, "interp.") || strings.Contains(msg, "smt.") {
			return pathAbort{kind: abortInternal, msg: "interpreter error: " + msg + "\n" + stack()}
		}
		return rtError(msg)
	case string:
		return pathAbort{kind: abortInternal, msg: "interpreter panic: " + p + "\n" + stack()}
	case error:
		return pathAbort{kind: abortInternal, msg: "interpreter panic: " + p.Error() + "\n" + stack()}
	}
	return pathAbort{kind: abortInternal, msg: fmt.Sprintf("interpreter panic: %v", p)}
}

func stack() string {
	buf := make([]byte, 1<<14)
	n := runtime.Stack(buf, false)
	return string(buf[:n])
}

func runFrame(fr *frame) {
	defer func() {
		if fr.block == nil {
			return // normal return
		}
		p := recover()
		if isControl(p) {
			panic(p)
		}
		p = classifyPanic(p)
		if isControl(p) {
			panic(p)
		}
		fr.panicking = true
		fr.panic = p
		if fr.g != nil && fr.g.panicOrigin == "" {
			fr.g.panicOrigin = fr.fn.String()
			if os.Getenv("GOSYM_PANICLOG") != "" {
				fmt.Fprintf(os.Stderr, "PANIC %v in %s%s\n", p, fr.fn.String(), fr.i.where())
			}
		}
		if fr.i.w.Trace {
			fmt.Fprintf(os.Stderr, "Panicking in %s: %T %v.\n", fr.fn, fr.panic, fr.panic)
		}
		fr.runDefers()
		fr.block = fr.fn.Recover
		if fr.block == nil {
			// recovered in a function without named results: return zero values
			fr.result = zeroResult(fr.fn)
		}
	}()

	for {
		nonPhis := executePhis(fr)
		for _, instr := range nonPhis {
			if fr.i.w.Trace {
				if v, ok := instr.(ssa.Value); ok {
					fmt.Fprintln(os.Stderr, "\t", v.Name(), "=", instr)
				} else {
					fmt.Fprintln(os.Stderr, "\t", instr)
				}
			}
			if visitInstr(fr, instr) == kReturn {
				return
			}
		}
	}
}

func zeroResult(fn *ssa.Function) value {
	res := fn.Signature.Results()
	switch res.Len() {
	case 0:
		return nil
	case 1:
		return zero(res.At(0).Type())
	}
	return zero(res)
}

func executePhis(fr *frame) []ssa.Instruction {
	firstNonPhi := -1
	for i, instr := range fr.block.Instrs {
		if _, ok := instr.(*ssa.Phi); !ok {
			firstNonPhi = i
			break
		}
	}
	nonPhis := fr.block.Instrs[firstNonPhi:]
	if firstNonPhi > 0 {
		phis := fr.block.Instrs[:firstNonPhi]
		predIndex := slices.Index(fr.block.Preds, fr.prevBlock)
		fr.phitemps = fr.phitemps[:0]
		for _, phi := range phis {
			phi := phi.(*ssa.Phi)
			fr.phitemps = append(fr.phitemps, fr.get(phi.Edges[predIndex]))
		}
		for i, phi := range phis {
			fr.env[phi.(*ssa.Phi)] = fr.phitemps[i]
		}
	}
	return nonPhis
}

// doRecover implements the recover() built-in.
func doRecover(caller *frame) value {
	if caller != nil && !caller.panicking &&
		caller.caller != nil && caller.caller.panicking {
		caller.caller.panicking = false
		p := caller.caller.panic
		caller.caller.panic = nil
		if caller.g != nil {
			caller.g.panicOrigin = ""
		}
		switch p := p.(type) {
		case targetPanic:
			return p.v
		case rtError:
			// a runtime.Error value: dynamic type runtime.errorString-like
			return iface{caller.i.w.rtErrType, strings.TrimPrefix(string(p), "runtime error: ")}
		default:
			panic(fmt.Sprintf("unexpected panic type %T in target call to recover()", p))
		}
	}
	return iface{}
}

func (w *World) linkTarget(fn *ssa.Function) *ssa.Function {
	if fn.Pkg == nil {
		return nil
	}
	key := fn.Pkg.Pkg.Path() + "." + fn.Name()
	tgt, ok := w.Linknames[key]
	if !ok {
		return nil
	}
	return w.LookupFunc(tgt)
}

// LookupFunc finds a package-level function by "import/path.Name".
func (w *World) LookupFunc(full string) *ssa.Function {
	if f, ok := w.fnCache[full]; ok {
		return f
	}
	dot := strings.LastIndex(full, ".")
	if dot < 0 {
		return nil
	}
	pkg := w.Prog.ImportedPackage(full[:dot])
	if pkg == nil {
		return nil
	}
	return pkg.Func(full[dot+1:])
}

// Setup prepares the world (after prog.Build()).
func (w *World) Setup() {
	w.fnCache = map[string]*ssa.Function{}
	// The dynamic type used for recovered runtime errors: runtime.plainError is not
	// exported; use runtime.errorString-compatible named type found in package runtime.
	rt := w.Prog.ImportedPackage("runtime")
	if rt == nil {
		panic("program does not include package runtime")
	}
	w.rtErrType = rt.Type("errorString").Object().Type()
}
