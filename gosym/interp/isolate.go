package interp

// Isolation monitor for C12: goroutines belong to a domain (one per query, inherited by
// the goroutines a query spawns; domain 0 = harness/unassigned). A heap cell or map
// written by one domain and then read or written by another domain is reported as a
// "shared-state" event — stronger than race freedom: the queries share no mutable
// state at all. Accesses performed by stub (zzverif) code are exempt.

import (
	"fmt"
	"strings"

	"golang.org/x/tools/go/ssa"
)

func exemptFrame(fr *frame) bool {
	for f := fr; f != nil; f = f.caller {
		if f.fn.Pkg != nil && strings.Contains(f.fn.Pkg.Pkg.Path(), "/zzverif/") {
			return true
		}
	}
	return false
}

func (i *interpreter) domain(fr *frame) int {
	if fr.g == nil {
		return 0
	}
	return fr.g.domain
}

func (i *interpreter) sharedEvent(fr *frame, what string, owner, me int, instr ssa.Instruction) {
	line := 0
	if instr != nil {
		line = i.prog.Fset.Position(instr.Pos()).Line
	}
	site := fmt.Sprintf("shared-state@%s", fr.fn.String())
	i.event("race", site, fmt.Sprintf("%s written by query domain %d is accessed by domain %d in %s (line %d)", what, owner, me, fr.fn.String(), line))
	panic(pathAbort{kind: abortEvent, msg: "state shared between queries: " + site})
}

func (i *interpreter) noteWrite(fr *frame, addr *value, instr ssa.Instruction) {
	d := i.domain(fr)
	if d == 0 || exemptFrame(fr) {
		return
	}
	if o, ok := i.cellOwner[addr]; ok && o != d {
		i.sharedEvent(fr, "memory", o, d, instr)
	}
	i.cellOwner[addr] = d
}

func (i *interpreter) noteRead(fr *frame, addr *value, instr ssa.Instruction) {
	d := i.domain(fr)
	if d == 0 {
		return
	}
	if o, ok := i.cellOwner[addr]; ok && o != d && !exemptFrame(fr) {
		i.sharedEvent(fr, "memory", o, d, instr)
	}
}

func (i *interpreter) noteMap(fr *frame, m *omap, write bool, instr ssa.Instruction) {
	d := i.domain(fr)
	if d == 0 || exemptFrame(fr) {
		return
	}
	if o, ok := i.mapOwner[m]; ok && o != d {
		i.sharedEvent(fr, "map", o, d, instr)
	}
	if write {
		i.mapOwner[m] = d
	}
}

// release forgets the ownership of every cell reachable from v (an object handed over
// through sync.Pool changes owner legitimately).
func (i *interpreter) release(v value, depth int) {
	if depth > 8 {
		return
	}
	switch x := v.(type) {
	case *value:
		if x == nil {
			return
		}
		delete(i.cellOwner, x)
		i.release(*x, depth+1)
	case structure:
		for k := range x {
			delete(i.cellOwner, &x[k])
			i.release(x[k], depth+1)
		}
	case array:
		for k := range x {
			delete(i.cellOwner, &x[k])
			i.release(x[k], depth+1)
		}
	case []value:
		x = x[:cap(x)]
		for k := range x {
			delete(i.cellOwner, &x[k])
			i.release(x[k], depth+1)
		}
	case iface:
		i.release(x.v, depth+1)
	case *omap:
		if x != nil {
			delete(i.mapOwner, x)
		}
	}
}
