package interp

// Deterministic cooperative scheduler for interpreted goroutines, channels, select,
// and models of sync / context primitives.

import (
	"fmt"
	"go/token"
	"go/types"
	"sync"

	"golang.org/x/tools/go/ssa"
)

type gstate int

const (
	gRunnable gstate = iota
	gBlocked
	gDone
)

type gor struct {
	id          int
	state       gstate
	wake        chan struct{}
	top         *frame
	blockOn     string
	domain      int
	panicOrigin string
	pos         token.Pos
	fnName      string
	waitIdle    bool // parked by sym.LetOthersRun until nobody else can run
	// delivery slot for channel operations completed by the peer
	recvVal value
	recvOk  bool
	selIdx  int
	waiting []*waiter
}

type scheduler struct {
	i       *interpreter
	all     []*gor
	cur     *gor
	kill    chan struct{}
	wg      sync.WaitGroup
	done    chan struct{} // closed when the path is over
	outcome *pathAbort
	mainRet bool
	preempt int // preemptions used (explore mode)
	events  []Finding
	once    sync.Once
}

func newScheduler(i *interpreter) *scheduler {
	return &scheduler{i: i, kill: make(chan struct{}), done: make(chan struct{})}
}

// endPath records the path outcome and wakes everything up for teardown.
func (s *scheduler) endPath(a *pathAbort) {
	s.once.Do(func() {
		s.outcome = a
		close(s.kill)
		close(s.done)
	})
}

// spawn creates an interpreted goroutine.
func (s *scheduler) spawn(i *interpreter, fn value, args []value, pos token.Pos) *gor {
	g := &gor{id: len(s.all), wake: make(chan struct{}, 1), pos: pos}
	if s.cur != nil {
		g.domain = s.cur.domain
	}
	switch f := fn.(type) {
	case *ssa.Function:
		g.fnName = f.String()
	case *closure:
		g.fnName = f.Fn.String()
	}
	s.all = append(s.all, g)
	s.trace("spawn g%d = %s", g.id, g.fnName)
	s.wg.Add(1)
	go func() {
		defer s.wg.Done()
		// wait for first scheduling
		select {
		case <-g.wake:
		case <-s.kill:
			return
		}
		defer func() {
			p := recover()
			switch p := p.(type) {
			case nil:
			case killed:
				return
			case pathAbort:
				s.endPath(&p)
				return
			default:
				cp := classifyPanic(p)
				if pa, ok := cp.(pathAbort); ok {
					s.endPath(&pa)
					return
				}
				// unrecovered target panic: the process would die
				msg := panicString(cp)
				site := "panic@" + g.fnName
				if g.panicOrigin != "" {
					site = "panic@" + g.panicOrigin
				}
				s.i.event("panic", site, fmt.Sprintf("unrecovered panic on goroutine %d (%s): %s", g.id, g.fnName, msg))
				s.endPath(&pathAbort{kind: abortEvent, msg: "unrecovered panic: " + msg})
				return
			}
			// normal goroutine exit
			s.trace("g%d exits", g.id)
			g.state = gDone
			if g.id == 0 {
				s.mainRet = true
			}
			s.schedule(nil)
		}()
		call(i, nil, pos, fn, args)
	}()
	if s.i.path.opts.Explore >= 0 && s.cur != nil {
		s.yield("go")
	}
	return g
}

func panicString(p interface{}) string {
	switch p := p.(type) {
	case targetPanic:
		return toString(p.v)
	case rtError:
		return string(p)
	}
	return fmt.Sprint(p)
}

// schedule picks the next goroutine to run; called by a goroutine that is about to
// park (self != nil, state already set) or that has exited (self == nil).
func (s *scheduler) schedule(self *gor) {
	var runnable []*gor
	for _, g := range s.all {
		if g.state == gRunnable {
			runnable = append(runnable, g)
		}
	}
	if len(runnable) == 0 {
		// a goroutine that let the others run first (sym.LetOthersRun) continues now
		for _, g := range s.all {
			if g.state == gBlocked && g.waitIdle {
				g.state = gRunnable
				g.waitIdle = false
				runnable = append(runnable, g)
				break
			}
		}
	}
	if len(runnable) == 0 {
		// nobody can run
		blocked := 0
		desc := ""
		for _, g := range s.all {
			if g.state == gBlocked {
				blocked++
				desc += fmt.Sprintf(" g%d(%s):%s", g.id, g.fnName, g.blockOn)
			}
		}
		if !s.mainRet {
			s.i.event("deadlock", "deadlock", "all goroutines blocked:"+desc)
			s.endPath(&pathAbort{kind: abortEvent, msg: "deadlock:" + desc})
		} else if blocked > 0 && s.i.path.leakCheck {
			s.i.event("leak", "leak", "goroutines still blocked after the harness returned:"+desc)
			s.endPath(&pathAbort{kind: abortEvent, msg: "goroutine leak:" + desc})
		} else {
			s.endPath(nil)
		}
		if self != nil {
			panic(killed{})
		}
		return
	}
	var next *gor
	if s.i.path.opts.ExploreForced && s.i.path.opts.Explore >= 0 && len(runnable) > 1 {
		next = runnable[s.i.path.choose(len(runnable), "sched")]
	} else {
		next = runnable[0]
		// prefer to continue the current goroutine if runnable (run-until-block)
		for _, g := range runnable {
			if g == self {
				next = g
			}
		}
	}
	s.cur = next
	if next == self {
		return
	}
	next.wake <- struct{}{}
	if self != nil {
		s.park(self)
	}
}

func (s *scheduler) trace(format string, args ...interface{}) {
	if s.i.path.opts.TraceSched {
		s.i.path.res.Trace = append(s.i.path.res.Trace, fmt.Sprintf(format, args...))
	}
}

func (s *scheduler) park(g *gor) {
	select {
	case <-g.wake:
	case <-s.kill:
		panic(killed{})
	}
	s.cur = g
}

// block parks the current goroutine until another goroutine makes it runnable.
func (s *scheduler) block(on string) {
	g := s.cur
	g.state = gBlocked
	g.blockOn = on
	s.trace("g%d blocks on %s%s", g.id, on, s.i.whereShort())
	s.schedule(g)
	s.trace("g%d resumes", g.id)
}

// letOthersRun parks the current goroutine until every other goroutine has blocked or
// finished (a deterministic schedule: "this call stays in flight while everybody else makes
// as much progress as they can").
func (s *scheduler) letOthersRun() {
	g := s.cur
	others := false
	for _, o := range s.all {
		if o != g && o.state == gRunnable {
			others = true
		}
	}
	if !others {
		return
	}
	g.state = gBlocked
	g.blockOn = "letting the others run"
	g.waitIdle = true
	s.trace("g%d lets the others run%s", g.id, s.i.whereShort())
	s.schedule(g)
	g.waitIdle = false
}

// yield is a scheduling point at a visible operation (explore mode only).
func (s *scheduler) yield(what string) {
	if s.i.path.opts.Explore < 0 {
		return
	}
	g := s.cur
	var others int
	for _, o := range s.all {
		if o != g && o.state == gRunnable {
			others++
		}
	}
	if others == 0 {
		return
	}
	if s.preempt >= s.i.path.opts.Explore {
		return
	}
	// choice: 0 = continue, k = switch to k-th other runnable
	c := s.i.path.choose(others+1, "preempt@"+what)
	if c == 0 {
		return
	}
	s.preempt++
	s.trace("g%d preempted at %s%s", g.id, what, s.i.whereShort())
	k := 0
	for _, o := range s.all {
		if o != g && o.state == gRunnable {
			k++
			if k == c {
				s.cur = o
				o.wake <- struct{}{}
				s.park(g)
				return
			}
		}
	}
}

func (s *scheduler) ready(g *gor) {
	if g.state == gBlocked {
		g.state = gRunnable
		g.blockOn = ""
	}
}

// ---------------------------------------------------------------- channels

type waiter struct {
	g    *gor
	val  value // for senders
	ch   *channel
	sel  int // select case index, -1 if plain op
	send bool
	done bool
}

type channel struct {
	id     int
	cap_   int
	buf    []value
	closed bool
	recvq  []*waiter
	sendq  []*waiter
}

func (c *channel) length() int {
	if c == nil {
		return 0
	}
	return len(c.buf)
}
func (c *channel) capacity() int {
	if c == nil {
		return 0
	}
	return c.cap_
}

func (i *interpreter) newChannel(n int) *channel {
	i.nextID++
	return &channel{id: i.nextID, cap_: n}
}

func dequeue(q *[]*waiter) *waiter {
	for len(*q) > 0 {
		w := (*q)[0]
		*q = (*q)[1:]
		if !w.done {
			return w
		}
	}
	return nil
}

// complete marks waiter w as served and cancels its sibling select registrations.
func (i *interpreter) complete(w *waiter) {
	for _, o := range w.g.waiting {
		o.done = true
	}
	w.g.waiting = nil
	w.g.selIdx = w.sel
	i.sched.ready(w.g)
}

func (c *channel) canRecv() bool {
	if c == nil {
		return false
	}
	if len(c.buf) > 0 || c.closed {
		return true
	}
	for _, w := range c.sendq {
		if !w.done {
			return true
		}
	}
	return false
}

func (c *channel) canSend() bool {
	if c == nil {
		return false
	}
	if c.closed {
		return true // will panic
	}
	if len(c.buf) < c.cap_ {
		return true
	}
	for _, w := range c.recvq {
		if !w.done {
			return true
		}
	}
	return false
}

// recvNow performs a receive that is known to be possible.
func (i *interpreter) recvNow(c *channel) (value, bool) {
	if len(c.buf) > 0 {
		v := c.buf[0]
		c.buf = c.buf[1:]
		// a blocked sender can now move its value into the buffer
		if w := dequeue(&c.sendq); w != nil {
			c.buf = append(c.buf, w.val)
			i.complete(w)
		}
		return v, true
	}
	if w := dequeue(&c.sendq); w != nil {
		i.complete(w)
		return w.val, true
	}
	if c.closed {
		return nil, false
	}
	panic("recvNow: not ready")
}

func (i *interpreter) sendNow(c *channel, v value) {
	if c.closed {
		panic(targetPanicString("send on closed channel"))
	}
	if w := dequeue(&c.recvq); w != nil {
		w.g.recvVal, w.g.recvOk = v, true
		i.complete(w)
		return
	}
	if len(c.buf) < c.cap_ {
		c.buf = append(c.buf, v)
		return
	}
	panic("sendNow: not ready")
}

func (i *interpreter) chanRecv(c *channel) (value, bool) {
	s := i.sched
	s.yield("recv")
	if c == nil {
		s.block("recv on nil channel")
		panic("unreachable")
	}
	if c.canRecv() {
		return i.recvNow(c)
	}
	g := s.cur
	w := &waiter{g: g, ch: c, sel: -1}
	c.recvq = append(c.recvq, w)
	g.waiting = []*waiter{w}
	g.recvVal, g.recvOk = nil, false
	s.block(fmt.Sprintf("chan receive (chan#%d)", c.id))
	return g.recvVal, g.recvOk
}

func (i *interpreter) chanSend(c *channel, v value) {
	v = copyValue(v)
	s := i.sched
	s.yield("send")
	if c == nil {
		s.block("send on nil channel")
		panic("unreachable")
	}
	if c.canSend() {
		i.sendNow(c, v)
		return
	}
	g := s.cur
	w := &waiter{g: g, ch: c, sel: -1, send: true, val: v}
	c.sendq = append(c.sendq, w)
	g.waiting = []*waiter{w}
	s.block(fmt.Sprintf("chan send (chan#%d)", c.id))
	if c.closed && !w.done {
		panic(targetPanicString("send on closed channel"))
	}
}

func (i *interpreter) chanClose(c *channel) {
	i.sched.yield("close")
	if c == nil {
		panic(targetPanicString("close of nil channel"))
	}
	if c.closed {
		panic(targetPanicString("close of closed channel"))
	}
	c.closed = true
	for {
		w := dequeue(&c.recvq)
		if w == nil {
			break
		}
		w.g.recvVal, w.g.recvOk = nil, false
		i.complete(w)
	}
	for {
		w := dequeue(&c.sendq)
		if w == nil {
			break
		}
		// blocked senders panic when they resume
		w.done = false
		for _, o := range w.g.waiting {
			if o != w {
				o.done = true
			}
		}
		w.g.waiting = nil
		w.g.selIdx = w.sel
		i.sched.ready(w.g)
	}
}

func (i *interpreter) doSelect(fr *frame, instr *ssa.Select) value {
	s := i.sched
	s.yield("select")
	type cs struct {
		ch   *channel
		send bool
		val  value
	}
	var cases []cs
	for _, st := range instr.States {
		c := cs{ch: fr.get(st.Chan).(*channel), send: st.Dir == types.SendOnly}
		if c.send {
			c.val = fr.get(st.Send)
		}
		cases = append(cases, c)
	}
	var ready []int
	for k, c := range cases {
		if (c.send && c.ch.canSend()) || (!c.send && c.ch.canRecv()) {
			ready = append(ready, k)
		}
	}
	chosen := -1
	var rv value
	rok := false
	if len(ready) > 0 {
		k := 0
		if len(ready) > 1 && i.path.opts.Explore >= 0 {
			k = i.path.choose(len(ready), "select")
		}
		chosen = ready[k]
		c := cases[chosen]
		if c.send {
			i.sendNow(c.ch, c.val)
		} else {
			rv, rok = i.recvNow(c.ch)
		}
	} else if !instr.Blocking {
		chosen = -1
	} else {
		g := s.cur
		g.waiting = nil
		n := 0
		for k, c := range cases {
			if c.ch == nil {
				continue
			}
			w := &waiter{g: g, ch: c.ch, sel: k, send: c.send, val: c.val}
			if c.send {
				c.ch.sendq = append(c.ch.sendq, w)
			} else {
				c.ch.recvq = append(c.ch.recvq, w)
			}
			g.waiting = append(g.waiting, w)
			n++
		}
		g.recvVal, g.recvOk = nil, false
		s.block("select")
		chosen = g.selIdx
		if cases[chosen].send {
			if cases[chosen].ch.closed {
				panic(targetPanicString("send on closed channel"))
			}
		} else {
			rv, rok = g.recvVal, g.recvOk
		}
	}
	r := tuple{chosen, rok}
	for k, st := range instr.States {
		if st.Dir == types.RecvOnly {
			var v value
			if k == chosen && rok {
				v = rv
			} else {
				v = zero(st.Chan.Type().Underlying().(*types.Chan).Elem())
			}
			r = append(r, v)
		}
	}
	return r
}

// ---------------------------------------------------------------- sync models

type onceModel struct {
	done    bool
	running bool
	waiters []*gor
}

type mutexModel struct {
	locked  bool
	readers int
	waiters []*gor
}

type wgModel struct {
	n       int
	waiters []*gor
}

type poolModel struct {
	items []value
}

func (i *interpreter) onceDo(fr *frame, o *value, f value) {
	m := i.onces[o]
	if m == nil {
		m = &onceModel{}
		i.onces[o] = m
	}
	i.sched.yield("once")
	for m.running {
		m.waiters = append(m.waiters, i.sched.cur)
		i.sched.block("sync.Once")
	}
	if m.done {
		return
	}
	m.running = true
	defer func() {
		m.running = false
		m.done = true
		for _, g := range m.waiters {
			i.sched.ready(g)
		}
		m.waiters = nil
	}()
	call(i, fr, token.NoPos, f, nil)
}

func (i *interpreter) mutexLock(mu *value) {
	m := i.mutexes[mu]
	if m == nil {
		m = &mutexModel{}
		i.mutexes[mu] = m
	}
	i.sched.yield("lock")
	for m.locked || m.readers > 0 {
		m.waiters = append(m.waiters, i.sched.cur)
		i.sched.block("sync.Mutex.Lock")
	}
	m.locked = true
}

func (i *interpreter) mutexUnlock(mu *value) {
	m := i.mutexes[mu]
	if m == nil || !m.locked {
		panic(targetPanicString("sync: unlock of unlocked mutex"))
	}
	m.locked = false
	for _, g := range m.waiters {
		i.sched.ready(g)
	}
	m.waiters = nil
	i.sched.yield("unlock")
}

func (i *interpreter) mutexRLock(mu *value) {
	m := i.mutexes[mu]
	if m == nil {
		m = &mutexModel{}
		i.mutexes[mu] = m
	}
	i.sched.yield("rlock")
	for m.locked {
		m.waiters = append(m.waiters, i.sched.cur)
		i.sched.block("sync.RWMutex.RLock")
	}
	m.readers++
}

func (i *interpreter) mutexRUnlock(mu *value) {
	m := i.mutexes[mu]
	if m == nil || m.readers == 0 {
		panic(targetPanicString("sync: RUnlock of unlocked RWMutex"))
	}
	m.readers--
	if m.readers == 0 {
		for _, g := range m.waiters {
			i.sched.ready(g)
		}
		m.waiters = nil
	}
	i.sched.yield("runlock")
}

func (i *interpreter) wgAdd(wg *value, n int) {
	m := i.wgs[wg]
	if m == nil {
		m = &wgModel{}
		i.wgs[wg] = m
	}
	m.n += n
	if m.n < 0 {
		panic(targetPanicString("sync: negative WaitGroup counter"))
	}
	if m.n == 0 {
		for _, g := range m.waiters {
			i.sched.ready(g)
		}
		m.waiters = nil
	}
	i.sched.yield("wg.add")
}

func (i *interpreter) wgWait(wg *value) {
	m := i.wgs[wg]
	if m == nil {
		m = &wgModel{}
		i.wgs[wg] = m
	}
	i.sched.yield("wg.wait")
	for m.n > 0 {
		m.waiters = append(m.waiters, i.sched.cur)
		i.sched.block("sync.WaitGroup.Wait")
	}
}

// ---------------------------------------------------------------- context model

type ctxModel struct {
	id        int
	parent    *ctxModel
	children  []*ctxModel
	done      *channel
	err       value // iface error or nil
	values    map[value]value
	canCancel bool
	cell      *value
}

func (i *interpreter) newCtx(parent *ctxModel, cancellable bool) *ctxModel {
	i.nextID++
	c := &ctxModel{id: i.nextID, parent: parent, canCancel: cancellable}
	if cancellable {
		c.done = i.newChannel(0)
	} else if parent != nil {
		c.done = parent.done
	}
	if parent != nil {
		parent.children = append(parent.children, c)
		if parent.err != nil {
			// already cancelled
			c.err = parent.err
			if cancellable {
				c.done.closed = true
			}
		}
	}
	i.ctxs = append(i.ctxs, c)
	return c
}

func (i *interpreter) cancelCtx(c *ctxModel, err value) {
	if c.err != nil {
		return
	}
	c.err = err
	if c.canCancel && !c.done.closed {
		i.chanClose(c.done)
	}
	for _, ch := range c.children {
		i.cancelCtx(ch, err)
	}
}
