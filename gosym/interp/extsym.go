package interp

// The harness-facing sym API (see /verif/harness/sym for the native twin).

import (
	"fmt"
	"math"
	"strings"

	"gosym/smt"
)

const SymPkg = "github.com/thanos-community/promql-engine/zzverif/sym"

func regSym(name string, f externalFn) { externals[SymPkg+"."+name] = f }

func (p *pathState) newVar(name string, s smt.Sort) *smt.Term {
	v := smt.Var(name, s)
	p.addInput(v)
	return v
}

func registerSym() {
	regSym("Int64", func(fr *frame, args []value) value {
		p := fr.i.path
		v := p.newVar(str(args[0]), smt.SInt)
		lo, hi := args[1].(int64), args[2].(int64)
		p.assume(smt.And(smt.Le(smt.IntConst(lo), v), smt.Le(v, smt.IntConst(hi))))
		if lo == hi {
			return lo
		}
		return symInt{v, kindInt64}
	})
	regSym("Int", func(fr *frame, args []value) value {
		p := fr.i.path
		v := p.newVar(str(args[0]), smt.SInt)
		lo, hi := args[1].(int), args[2].(int)
		p.assume(smt.And(smt.Le(smt.IntConst(int64(lo)), v), smt.Le(v, smt.IntConst(int64(hi)))))
		if lo == hi {
			return lo
		}
		return symInt{v, kindInt}
	})
	regSym("Bool", func(fr *frame, args []value) value {
		return symBool{fr.i.path.newVar(str(args[0]), smt.SBool)}
	})
	regSym("Float64", func(fr *frame, args []value) value {
		return symFloat{fr.i.path.newVar(str(args[0]), smt.SFP), nil}
	})
	regSym("Finite", func(fr *frame, args []value) value {
		p := fr.i.path
		v := p.newVar(str(args[0]), smt.SFP)
		p.assume(smt.And(smt.Not(smt.FIsNaN(v)), smt.Not(smt.FIsInf(v))))
		return symFloat{v, nil}
	})
	regSym("Sample", func(fr *frame, args []value) value {
		p := fr.i.path
		v := p.newVar(str(args[0]), smt.SFP)
		s := p.newVar(str(args[0])+"!stale", smt.SBool)
		p.assume(smt.Implies(s, smt.FIsNaN(v)))
		return symFloat{v, s}
	})
	regSym("IntRange", func(fr *frame, args []value) value {
		lo, hi := args[1].(int), args[2].(int)
		if hi < lo {
			panic(pathAbort{kind: abortInfeasible, msg: "empty IntRange"})
		}
		c := fr.i.path.choose(hi-lo+1, "IntRange:"+str(args[0]))
		fr.i.path.res.choice(str(args[0]), lo+c)
		return lo + c
	})
	regSym("Choice", func(fr *frame, args []value) value {
		n := args[1].(int)
		c := fr.i.path.choose(n, "Choice:"+str(args[0]))
		fr.i.path.res.choice(str(args[0]), c)
		return c
	})
	regSym("Fault", func(fr *frame, args []value) value {
		p := fr.i.path
		if p.faults >= p.opts.MaxFaults {
			return false
		}
		c := p.choose(2, "Fault:"+str(args[0]))
		name := fmt.Sprintf("fault#%d:%s", p.faultSites, str(args[0]))
		p.faultSites++
		p.res.choice(name, c)
		if c == 1 {
			p.faults++
			fr.i.counters["faults-fired"]++
			return true
		}
		return false
	})
	regSym("Assume", func(fr *frame, args []value) value {
		p := fr.i.path
		switch c := args[0].(type) {
		case bool:
			if !c {
				panic(pathAbort{kind: abortInfeasible, msg: "Assume(false)"})
			}
		case symBool:
			// feasibility of the continued path
			if _, ok := p.nextDecision(); !ok || true {
				p.assume(c.t)
				if len(p.decisions) >= len(p.prefix) {
					if p.sess.Check() == smt.Unsat {
						panic(pathAbort{kind: abortInfeasible, msg: "Assume unsatisfiable"})
					}
				}
			}
		}
		return nil
	})
	regSym("Assert", func(fr *frame, args []value) value {
		site := str(args[0])
		p := fr.i.path
		p.res.AssertSites = append(p.res.AssertSites, site)
		switch c := args[1].(type) {
		case bool:
			if c {
				p.res.Asserts++
				p.pendKnown = nil
				return nil
			}
			p.checkAssert(site, smt.False, "")
		case symBool:
			p.checkAssert(site, c.t, "")
		}
		return nil
	})
	regSym("Known", func(fr *frame, args []value) value {
		id := str(args[0])
		fr.i.path.pendKnown = append(fr.i.path.pendKnown, knownRegion{id, boolTerm(args[1])})
		return nil
	})
	regSym("KnownEvent", func(fr *frame, args []value) value {
		fr.i.path.knownEvents = append(fr.i.path.knownEvents, knownEvent{str(args[0]), str(args[1])})
		return nil
	})
	regSym("Reached", func(fr *frame, args []value) value {
		fr.i.path.res.Reached = append(fr.i.path.res.Reached, str(args[0]))
		return nil
	})
	regSym("Stop", func(fr *frame, args []value) value {
		panic(pathAbort{kind: abortDone, msg: "sym.Stop"})
	})
	regSym("Observe", func(fr *frame, args []value) value {
		fr.i.path.res.Observes = append(fr.i.path.res.Observes, str(args[0])+"="+toString(args[1]))
		return nil
	})
	regSym("Tier", func(fr *frame, args []value) value {
		if fr.i.path.opts.Tier == "thorough" {
			return args[1]
		}
		return args[0]
	})
	regSym("Param", func(fr *frame, args []value) value {
		if v, ok := fr.i.path.opts.Params[str(args[0])]; ok {
			return v
		}
		return args[1]
	})
	regSym("Symbolic", func(fr *frame, args []value) value { return true })
	regSym("SameF", func(fr *frame, args []value) value {
		a, as := floatTerm(args[0])
		b, bs := floatTerm(args[1])
		if as == nil {
			as = smt.False
		}
		if bs == nil {
			bs = smt.False
		}
		return mkBool(smt.And(smt.Eq(a, b), smt.Eq(as, bs)))
	})
	regSym("EqF", func(fr *frame, args []value) value {
		// equal as PromQL values: both NaN or IEEE-equal (signed zeros identified)
		a, _ := floatTerm(args[0])
		b, _ := floatTerm(args[1])
		if a == b {
			return true
		}
		// compare modulo the sign of zeros inside ≈-congruent operators (smt.QuotZero)
		a, b = smt.QuotZero(a), smt.QuotZero(b)
		if a == b {
			return true
		}
		return mkBool(smt.Or(smt.And(smt.FIsNaN(a), smt.FIsNaN(b)), smt.FEq(a, b)))
	})
	regSym("EqR", func(fr *frame, args []value) value {
		// equal up to rounding: equality over the reals (real mode only)
		a, _ := floatTerm(args[0])
		b, _ := floatTerm(args[1])
		if a == b {
			return true
		}
		return mkBool(smt.Eq(a, b))
	})
	regSym("IsStale", func(fr *frame, args []value) value {
		switch x := args[0].(type) {
		case float64:
			return math.Float64bits(x) == staleNaNBits
		case symFloat:
			if x.stale == nil {
				return false
			}
			return mkBool(x.stale)
		}
		panic("IsStale arg")
	})
	regSym("And", func(fr *frame, args []value) value {
		acc := smt.True
		for _, a := range args[0].([]value) {
			acc = smt.And(acc, boolTerm(a))
		}
		return mkBool(acc)
	})
	regSym("Or", func(fr *frame, args []value) value {
		acc := smt.False
		for _, a := range args[0].([]value) {
			acc = smt.Or(acc, boolTerm(a))
		}
		return mkBool(acc)
	})
	regSym("Not", func(fr *frame, args []value) value { return mkBool(smt.Not(boolTerm(args[0]))) })
	regSym("Implies", func(fr *frame, args []value) value {
		return mkBool(smt.Implies(boolTerm(args[0]), boolTerm(args[1])))
	})
	regSym("Iff", func(fr *frame, args []value) value {
		return mkBool(smt.Eq(boolTerm(args[0]), boolTerm(args[1])))
	})
	regSym("IteF", func(fr *frame, args []value) value {
		c := boolTerm(args[0])
		a, as := floatTerm(args[1])
		b, bs := floatTerm(args[2])
		if as == nil {
			as = smt.False
		}
		if bs == nil {
			bs = smt.False
		}
		return mkFloat(smt.Ite(c, a, b), smt.Ite(c, as, bs))
	})
	regSym("IteI", func(fr *frame, args []value) value {
		c := boolTerm(args[0])
		a, k := intTerm(args[1])
		b, _ := intTerm(args[2])
		return fr.i.mkInt(smt.Ite(c, a, b), k, false)
	})
	regSym("TimeMs", func(fr *frame, args []value) value {
		// time.Time{wall, ext, loc}
		return structure{symTimeWall, args[0], (*value)(nil)}
	})
	regSym("DurMs", func(fr *frame, args []value) value {
		a, _ := intTerm(args[0])
		return fr.i.mkInt(smt.Mul(a, smt.IntConst(1000000)), kindInt64, true)
	})
	regSym("Domain", func(fr *frame, args []value) value {
		fr.i.isolate = true
		if fr.g != nil {
			fr.g.domain = args[0].(int)
		}
		return nil
	})
	regSym("Yield", func(fr *frame, args []value) value { fr.i.sched.yield("storage-callback"); return nil })
	regSym("Lock", func(fr *frame, args []value) value { return nil })
	regSym("Unlock", func(fr *frame, args []value) value { return nil })
	regSym("LetOthersRun", func(fr *frame, args []value) value { fr.i.sched.letOthersRun(); return nil })
	regSym("RealReference", func(fr *frame, args []value) value {
		// interpret the real reference engine instead of the counting model
		for _, n := range []string{
			"github.com/prometheus/prometheus/promql.NewEngine",
			"(*github.com/prometheus/prometheus/promql.Engine).NewInstantQuery",
			"(*github.com/prometheus/prometheus/promql.Engine).NewRangeQuery",
		} {
			fr.i.disabledExt[n] = true
		}
		return nil
	})
	regSym("CheckLeaks", func(fr *frame, args []value) value { fr.i.path.leakCheck = true; return nil })
	regSym("PoolNondet", func(fr *frame, args []value) value { fr.i.path.poolNondet = true; return nil })
	regSym("SetGOMAXPROCS", func(fr *frame, args []value) value { fr.i.path.gomaxprocs = args[0].(int); return nil })
	regSym("ReadOnly", func(fr *frame, args []value) value {
		it := args[1].(iface)
		fr.i.markReadOnly(str(args[0]), it.v)
		return nil
	})
	regSym("Counter", func(fr *frame, args []value) value { return fr.i.counters[str(args[0])] })
	regSym("Log", func(fr *frame, args []value) value { return nil })
}

func (r *PathResult) choice(name string, v int) {
	if r.Choices == nil {
		r.Choices = map[string]int{}
	}
	if _, dup := r.Choices[name]; dup {
		panic(pathAbort{kind: abortInternal, msg: "duplicate choice name " + name})
	}
	r.Choices[name] = v
}

type knownEvent struct {
	id      string
	pattern string
}

// event records an executor-raised event (panic / deadlock / leak / write to
// read-only memory) as a finding, honouring KnownEvent declarations.
func (i *interpreter) event(kind, site, msg string) {
	p := i.path
	f := Finding{Site: site, Kind: kind, Msg: msg, Decisions: append([]int(nil), p.decisions...), Choices: copyChoices(p.res.Choices)}
	// model of the current path condition (also settles feasibility of lazily
	// branched paths: an event on an infeasible path is no event)
	p.sess.Push()
	p.sess.SetTimeout(p.opts.AssertTimeMs)
	r := p.sess.Check()
	if r == smt.Sat {
		f.Inputs = p.model()
	}
	p.sess.SetTimeout(p.opts.TimeoutMs)
	p.sess.Pop()
	if r == smt.Unsat {
		p.infeasibleEvent = true
		return
	}
	if r == smt.Unknown && p.lazy {
		p.res.Unknowns = append(p.res.Unknowns, "event-feasibility:"+site)
		p.infeasibleEvent = true
		return
	}
	for _, k := range p.knownEvents {
		if p.opts.KnownOpen[k.id] && strings.Contains(site+" "+msg, k.pattern) {
			f.KnownID = k.id
			p.res.Known = append(p.res.Known, f)
			return
		}
	}
	p.res.Findings = append(p.res.Findings, f)
}
