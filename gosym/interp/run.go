package interp

import (
	"fmt"
	"go/types"
	"os"
	"sort"
	"sync"
	"time"
	"unsafe"

	"golang.org/x/tools/go/ssa"

	"gosym/smt"
)

const (
	kindInt64 = types.Int64
	kindInt   = types.Int
)

type roRegion struct {
	name   string
	lo, hi uintptr
	keep   []value
}

func (i *interpreter) markReadOnly(name string, v value) {
	i.markRO(name, v, 0)
}

func (i *interpreter) markRO(name string, v value, depth int) {
	if depth > 6 {
		return
	}
	add := func(x []value) {
		x = x[:cap(x)]
		if len(x) == 0 {
			return
		}
		lo := uintptr(unsafe.Pointer(&x[0]))
		hi := uintptr(unsafe.Pointer(&x[len(x)-1]))
		i.ro = append(i.ro, roRegion{name: name, lo: lo, hi: hi, keep: x})
	}
	switch x := v.(type) {
	case []value:
		add(x)
		for _, e := range x[:cap(x)] {
			i.markRO(name, e, depth+1)
		}
	case structure:
		add([]value(x))
		for _, e := range x {
			i.markRO(name, e, depth+1)
		}
	case array:
		add([]value(x))
		for _, e := range x {
			i.markRO(name, e, depth+1)
		}
	case iface:
		i.markRO(name, x.v, depth+1)
	}
}

func (i *interpreter) roHit(addr *value) *roRegion {
	a := uintptr(unsafe.Pointer(addr))
	for k := range i.ro {
		if a >= i.ro[k].lo && a <= i.ro[k].hi {
			return &i.ro[k]
		}
	}
	return nil
}

func (i *interpreter) checkWrite(addr *value, instr ssa.Instruction) {
	if addr == nil {
		return
	}
	if r := i.roHit(addr); r != nil {
		fn := "?"
		line := 0
		if instr != nil && instr.Parent() != nil {
			fn = instr.Parent().String()
			line = i.prog.Fset.Position(instr.Pos()).Line
		}
		site := fmt.Sprintf("write-ro@%s", fn)
		i.event("write-ro", site, fmt.Sprintf("store into storage-owned memory %q at %s line %d", r.name, fn, line))
		panic(pathAbort{kind: abortEvent, msg: "write into read-only region " + r.name})
	}
}

func (i *interpreter) checkWriteSlice(x []value, from, to int, fr *frame, what string) {
	if len(i.ro) == 0 {
		return
	}
	x = x[:cap(x)]
	for k := from; k < to && k < len(x); k++ {
		if r := i.roHit(&x[k]); r != nil {
			fn := "?"
			if fr != nil {
				fn = fr.fn.String()
			}
			site := fmt.Sprintf("write-ro@%s", fn)
			i.event("write-ro", site, fmt.Sprintf("%s into storage-owned memory %q in %s", what, r.name, fn))
			panic(pathAbort{kind: abortEvent, msg: "write into read-only region " + r.name})
		}
	}
}

// RunPath executes the harness along one decision prefix.
func RunPath(w *World, fn *ssa.Function, prefix []int, opts *Options, sess *smt.Session, witness ...bool) *PathResult {
	res := &PathResult{Prefix: prefix, Outcome: "ok", Funcs: map[string]bool{}}
	i := &interpreter{
		w:           w,
		prog:        w.Prog,
		globals:     map[*ssa.Global]*value{},
		initDone:    map[*ssa.Package]bool{},
		maxSteps:    opts.MaxSteps,
		onces:       map[*value]*onceModel{},
		mutexes:     map[*value]*mutexModel{},
		wgs:         map[*value]*wgModel{},
		pools:       map[*value]*poolModel{},
		syncMaps:    map[*value]*omap{},
		counters:    map[string]int{},
		fnSeen:      map[*ssa.Function]bool{},
		cellOwner:   map[*value]int{},
		disabledExt: map[string]bool{},
		mapOwner:    map[*omap]int{},
	}
	sess.Reset()
	sess.Stats = smt.Stats{}
	p := &pathState{i: i, prefix: prefix, sess: sess, res: res, opts: opts, inputSeen: map[string]bool{}, gomaxprocs: 8}
	i.path = p
	p.wantWitness = len(witness) > 0 && witness[0]
	s := newScheduler(i)
	i.sched = s
	g0 := s.spawn(i, fn, nil, fn.Pos())
	s.cur = g0
	g0.wake <- struct{}{}
	<-s.done
	s.wg.Wait()
	res.Decisions = p.decisions
	res.Steps = i.steps
	if a := s.outcome; a != nil {
		switch a.kind {
		case abortInfeasible:
			res.Outcome = "infeasible"
		case abortViolation:
			res.Outcome = "violation"
		case abortUnsupported:
			res.Outcome = "unsupported"
		case abortBound:
			res.Outcome = "bound"
		case abortInternal:
			res.Outcome = "internal"
		case abortDone:
			res.Outcome = "ok"
		case abortEvent:
			switch {
			case len(res.Findings) > 0:
				res.Outcome = "violation"
			case p.infeasibleEvent && len(res.Unknowns) > 0:
				res.Outcome = "unknown"
			case p.infeasibleEvent:
				res.Outcome = "infeasible"
			default:
				res.Outcome = "ok" // known event
			}
		}
		res.Msg = trimMsg(a.msg)
	}
	if res.Outcome == "ok" {
		func() {
			defer func() {
				if r := recover(); r != nil {
					res.Outcome = "internal"
					res.Msg = fmt.Sprint(r)
				}
			}()
			p.finish()
		}()
	}
	if res.Outcome == "ok" && !p.lazy {
		for _, r := range res.Reached {
			opts.ReachSeen.Store(r, true)
		}
	}
	if res.Outcome == "ok" && len(witness) > 0 && witness[0] && res.Asserts > 0 && len(res.Known) == 0 && s.outcome == nil {
		if sess.Check() == smt.Sat {
			res.Witness = &Witness{Inputs: p.model(), Choices: copyChoices(res.Choices), Decisions: res.Decisions}
		}
	}
	if len(res.Unknowns) > 0 && res.Outcome == "ok" {
		res.Outcome = "unknown"
		res.Msg = fmt.Sprint(res.Unknowns)
	}
	res.Stats = sess.Stats
	return res
}

// Summary aggregates a whole exploration.
type Summary struct {
	Harness     string
	Paths       int
	ByOutcome   map[string]int
	Decisions   int
	Steps       int64
	Asserts     int
	Findings    []Finding
	Known       []Finding
	Reached     map[string]int
	AssertSites map[string]int
	Problems    []string // inconclusive items
	Stats       smt.Stats
	Funcs       map[string]bool
	Samples     []map[string]interface{}
	WallS       float64
	MaxPaths    bool
	Witnesses   []*Witness
	FeasUnknown int
	FeasSkipped int
}

// Explore runs all paths of fn with a pool of workers.
func Explore(w *World, fn *ssa.Function, opts *Options, workers, maxPaths int, timeout time.Duration) *Summary {
	sum := &Summary{Harness: fn.String(), ByOutcome: map[string]int{}, Reached: map[string]int{}, AssertSites: map[string]int{}, Funcs: map[string]bool{}}
	t0 := time.Now()
	var mu sync.Mutex
	cond := sync.NewCond(&mu)
	work := [][]int{opts.Root}
	active := 0
	lastProgress := time.Now()
	pendingW := 0
	stop := false
	var wg sync.WaitGroup
	for k := 0; k < workers; k++ {
		wg.Add(1)
		go func() {
			defer wg.Done()
			sess, err := smt.NewSession(opts.TimeoutMs)
			if err != nil {
				mu.Lock()
				sum.Problems = append(sum.Problems, "solver start: "+err.Error())
				stop = true
				cond.Broadcast()
				mu.Unlock()
				return
			}
			defer sess.Close()
			for {
				mu.Lock()
				for len(work) == 0 && active > 0 && !stop {
					cond.Wait()
				}
				if stop || (len(work) == 0 && active == 0) {
					cond.Broadcast()
					mu.Unlock()
					return
				}
				prefix := work[len(work)-1]
				work = work[:len(work)-1]
				active++
				mu.Unlock()

				mu.Lock()
				wantW := len(sum.Witnesses)+pendingW < opts.Witnesses
				if wantW {
					pendingW++
				}
				mu.Unlock()
				res := RunPath(w, fn, prefix, opts, sess, wantW)

				mu.Lock()
				active--
				if wantW {
					pendingW--
				}
				if res.Witness != nil && len(sum.Witnesses) < opts.Witnesses {
					sum.Witnesses = append(sum.Witnesses, res.Witness)
				}
				sum.FeasUnknown += res.FeasUnknown
				if res.FeasSkipped {
					sum.FeasSkipped++
				}
				sum.Paths++
				if time.Since(lastProgress) > 30*time.Second {
					lastProgress = time.Now()
					fmt.Fprintf(os.Stderr, "  ... %s: %d paths %v, %d queued, %.0fs\n", fn.Name(), sum.Paths, sum.ByOutcome, len(work), time.Since(t0).Seconds())
				}
				sum.ByOutcome[res.Outcome]++
				sum.Decisions += len(res.Decisions)
				sum.Steps += res.Steps
				sum.Asserts += res.Asserts
				sum.Stats.Merge(res.Stats)
				for _, r := range res.Reached {
					sum.Reached[r]++
				}
				for _, r := range res.AssertSites {
					sum.AssertSites[r]++
				}
				for f := range res.Funcs {
					sum.Funcs[f] = true
				}
				sum.Findings = append(sum.Findings, res.Findings...)
				sum.Known = append(sum.Known, res.Known...)
				switch res.Outcome {
				case "unsupported", "bound", "internal", "unknown", "overflow":
					if len(sum.Problems) < 50 {
						sum.Problems = append(sum.Problems, fmt.Sprintf("%s: %s (decisions %v)", res.Outcome, res.Msg, res.Decisions))
					}
				}
				if len(sum.Samples) < 4 && res.Outcome == "ok" && res.Asserts > 0 {
					sum.Samples = append(sum.Samples, map[string]interface{}{
						"decisions": res.Decisions, "choices": res.Choices, "asserts": res.Asserts, "steps": res.Steps,
					})
				}
				work = append(work, res.Forks...)
				if sum.Paths >= maxPaths && (len(work) > 0 || active > 0) {
					sum.MaxPaths = true
					stop = true
				}
				if time.Since(t0) > timeout {
					sum.Problems = append(sum.Problems, "wall-clock budget exhausted before all paths were explored")
					stop = true
				}
				cond.Broadcast()
				mu.Unlock()
			}
		}()
	}
	wg.Wait()
	if sum.MaxPaths {
		sum.Problems = append(sum.Problems, fmt.Sprintf("path budget (%d) exhausted before all paths were explored", maxPaths))
	}
	sort.Strings(sum.Problems)
	sum.WallS = time.Since(t0).Seconds()
	return sum
}
